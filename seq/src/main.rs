//! `seq` — engine E3: explicit-state exploration (stateright BFS) of every public
//! constructor/conversion CALL SEQUENCE up to a depth and deviation bound. Each transition executes
//! the real conversion of the working tree in /repo (hooks armed) inside `catch_unwind`; states are
//! canonical serialisations of the resulting images. Invariants are checked in every reached state.
//!
//!   seq run <C07|C13> <quick|thorough> --out <report.json>
//!   seq replay <file>

use serde_json::{json, Value};
use stateright::{Checker, Model, Property};
use std::cell::RefCell;
use yuvxyb::{
    ColorPrimaries as CP, Frame, Hsl, LinearRgb, MatrixCoefficients as MC, Pixel, Plane, Rgb, TransferCharacteristic as TC, Xyb, Yuv,
    YuvConfig,
};

// ---- panic capture -------------------------------------------------------------------------------
thread_local! { static LAST_PANIC: RefCell<Option<String>> = const { RefCell::new(None) }; }
fn install_panic_hook() {
    std::panic::set_hook(Box::new(|info| {
        let msg = if let Some(s) = info.payload().downcast_ref::<&str>() {
            (*s).to_string()
        } else if let Some(s) = info.payload().downcast_ref::<String>() {
            s.clone()
        } else {
            "<non-string panic>".into()
        };
        let file = info.location().map(|l| l.file().rsplit('/').next().unwrap_or("").to_string()).unwrap_or_default();
        if ["unsafe precondition", "misaligned pointer dereference", "null pointer dereference"].iter().any(|w| msg.contains(w)) {
            eprintln!("NON-UNWINDING PANIC: {msg} @ {file}");
        }
        LAST_PANIC.with(|p| *p.borrow_mut() = Some(format!("{msg} @ {file}")));
    }));
}
fn guarded<R>(f: impl FnOnce() -> R) -> Result<R, String> {
    std::panic::catch_unwind(std::panic::AssertUnwindSafe(f)).map_err(|_| LAST_PANIC.with(|p| p.borrow_mut().take()).unwrap_or_else(|| "<panic>".into()))
}

// ---- covering configuration alphabet ---------------------------------------------------------------
/// (wide, depth, ss, full, matrix, transfer, primaries): every value of every dimension occurs.
const YCFG: [(bool, u8, (u8, u8), bool, MC, TC, CP); 8] = [
    (false, 8, (0, 0), false, MC::BT709, TC::BT1886, CP::BT709),
    (true, 10, (1, 1), true, MC::BT2020NonConstantLuminance, TC::PerceptualQuantizer, CP::BT2020),
    (true, 16, (1, 0), false, MC::YCgCo, TC::HybridLogGamma, CP::Film),
    (false, 8, (2, 2), true, MC::ST170M, TC::SRGB, CP::BT709),
    (true, 10, (0, 0), false, MC::BT470M, TC::Logarithmic100, CP::BT470M),
    (true, 12, (0, 1), true, MC::ST240M, TC::Logarithmic316, CP::ST428),
    // a matrix derived from the primaries (constant-luminance family)
    (true, 10, (0, 0), true, MC::ICtCp, TC::PerceptualQuantizer, CP::BT2020),
    // unspecified transfer and primaries: resolved by the library at construction / conversion
    (false, 8, (0, 0), false, MC::BT709, TC::Unspecified, CP::Unspecified),
];
/// What the stored config of an image built/converted with `ycfg(i)` must be (documented mpv rule;
/// all images here are smaller than every threshold, and the only Unspecified entry has a BT.709 matrix).
fn stored_cfg(i: usize) -> YuvConfig {
    let mut c = ycfg(i);
    if c.transfer_characteristics == TC::Unspecified {
        c.transfer_characteristics = TC::BT1886;
    }
    if c.color_primaries == CP::Unspecified {
        c.color_primaries = CP::BT709;
    }
    c
}
const RCFG: [(TC, CP); 7] = [
    (TC::BT1886, CP::BT709),
    (TC::PerceptualQuantizer, CP::BT2020),
    (TC::HybridLogGamma, CP::Film),
    (TC::Logarithmic100, CP::BT709),
    (TC::SRGB, CP::P3DCI),
    (TC::Linear, CP::ST428),
    (TC::Unspecified, CP::Unspecified),
];
fn ycfg(i: usize) -> YuvConfig {
    let c = YCFG[i];
    YuvConfig { bit_depth: c.1, subsampling_x: c.2 .0, subsampling_y: c.2 .1, full_range: c.3, matrix_coefficients: c.4, transfer_characteristics: c.5, color_primaries: c.6 }
}

const POKES: [u32; 5] = [0x7FC0_0000, 0x7F80_0000, 0xFF80_0000, 0xFF61_B1E6 /* -3e38 */, 0x0001_16C2 /* 1e-40 */];

// ---- state ---------------------------------------------------------------------------------------
#[derive(Clone, Debug, Hash, PartialEq, Eq)]
enum Body {
    Yuv { cfg: usize, planes: [Vec<u16>; 3] },
    Rgb { lab: usize, data: Vec<[u32; 3]> },
    Lin { data: Vec<[u32; 3]> },
    Xyb { data: Vec<[u32; 3]> },
    Hsl { data: Vec<[u32; 3]> },
    /// a conversion panicked (ub = an unsafe-precondition hook fired)
    Crashed { ub: bool, site: String },
    /// a state invariant was found violated while producing this state
    Invalid { what: String },
}
#[derive(Clone, Debug, Hash, PartialEq, Eq)]
struct St {
    depth: u8,
    devs: u8,
    w: u8,
    h: u8,
    body: Body,
}

#[derive(Clone, Debug, Hash, PartialEq, Eq)]
enum Act {
    ToRgbRef,
    ToRgbVal,
    ToLin,
    ToXyb,
    ToHsl,
    ToRgbLab(usize),
    ToYuv(usize),
    ToYuvRef(usize),
    Poke(usize, usize, usize),
    Rewrap,
    /// two conversions chained on the *live* object (no re-wrapping through a constructor in
    /// between): X -> Yuv(config) -> LinearRgb (false) or Xyb (true)
    ViaYuv(usize, bool),
    /// LinearRgb/Xyb -> Rgb(labels) -> LinearRgb, chained on the live Rgb
    ViaRgb(usize),
}

fn bits(d: &[[f32; 3]]) -> Vec<[u32; 3]> {
    d.iter().map(|p| [p[0].to_bits(), p[1].to_bits(), p[2].to_bits()]).collect()
}
fn floats(d: &[[u32; 3]]) -> Vec<[f32; 3]> {
    d.iter().map(|p| [f32::from_bits(p[0]), f32::from_bits(p[1]), f32::from_bits(p[2])]).collect()
}

fn build_yuv<T: Pixel>(w: usize, h: usize, ci: usize, planes: &[Vec<u16>; 3], pad: usize) -> Result<Yuv<T>, String> {
    let cfg = ycfg(ci);
    let (sx, sy) = (cfg.subsampling_x as usize, cfg.subsampling_y as usize);
    let mk = |i: usize, pw: usize, ph: usize, xd: usize, yd: usize| -> Plane<T> {
        let mut p: Plane<T> = Plane::new(pw, ph, xd, yd, pad, pad);
        let (st, xo, yo) = (p.cfg.stride, p.cfg.xorigin, p.cfg.yorigin);
        for y in 0..ph {
            for x in 0..pw {
                p.data[(yo + y) * st + xo + x] = T::cast_from(planes[i][y * pw + x]);
            }
        }
        p
    };
    let frame = Frame { planes: [mk(0, w, h, 0, 0), mk(1, w >> sx, h >> sy, sx, sy), mk(2, w >> sx, h >> sy, sx, sy)] };
    Yuv::new(frame, cfg).map_err(|e| format!("Yuv::new rejected a reached YUV state: {e:?}"))
}

fn yuv_body<T: Pixel>(y: &Yuv<T>, ci: usize, w: usize, h: usize) -> Body {
    use yuvxyb::CastFromPrimitive;
    let cfg = stored_cfg(ci);
    if y.config() != cfg {
        return Body::Invalid { what: format!("stored config is {:?}, expected {cfg:?}", y.config()) };
    }
    if y.width() != w || y.height() != h {
        return Body::Invalid { what: format!("dims changed: {w}x{h} -> {}x{}", y.width(), y.height()) };
    }
    let max = ((1u32 << cfg.bit_depth) - 1) as u16;
    let mut planes: [Vec<u16>; 3] = [vec![], vec![], vec![]];
    for (i, p) in y.data().iter().enumerate() {
        let (pw, ph) = if i == 0 { (w, h) } else { (w >> cfg.subsampling_x, h >> cfg.subsampling_y) };
        if p.cfg.width != pw || p.cfg.height != ph {
            return Body::Invalid { what: format!("plane {i} is {}x{}, expected {pw}x{ph}", p.cfg.width, p.cfg.height) };
        }
        for yy in 0..ph {
            for xx in 0..pw {
                let v = u16::cast_from(p.p(xx, yy));
                if v > max {
                    return Body::Invalid { what: format!("code {v} > {max} in plane {i}") };
                }
                planes[i].push(v);
            }
        }
    }
    Body::Yuv { cfg: ci, planes }
}

fn float_body(kind: &str, data: &[[f32; 3]], dw: usize, dh: usize, w: usize, h: usize, lab: usize) -> Body {
    if dw != w || dh != h || data.len() != w * h {
        return Body::Invalid { what: format!("dims changed: {w}x{h} -> {dw}x{dh} ({} pixels)", data.len()) };
    }
    match kind {
        "rgb" => Body::Rgb { lab, data: bits(data) },
        "lin" => Body::Lin { data: bits(data) },
        "xyb" => Body::Xyb { data: bits(data) },
        _ => Body::Hsl { data: bits(data) },
    }
}

fn via_yuv<T: Pixel>(y: Result<Yuv<T>, yuvxyb::ConversionError>, ci: usize, to_xyb: bool, w: usize, h: usize) -> Option<Body> {
    let y = y.ok()?;
    // run the second conversion on the live object first (a malformed intermediate may lead the
    // library into undefined behaviour there: that is the finding to surface), then require the
    // intermediate image itself to be well-formed
    let out = if to_xyb {
        Xyb::try_from(&y).ok().map(|r| float_body("xyb", r.data(), r.width(), r.height(), w, h, 0))
    } else {
        LinearRgb::try_from(&y).ok().map(|r| float_body("lin", r.data(), r.width(), r.height(), w, h, 0))
    };
    if let Body::Invalid { what } = yuv_body(&y, ci, w, h) {
        return Some(Body::Invalid { what });
    }
    out
}

struct Seq {
    max_depth: u8,
    max_devs: u8,
    inits: Vec<St>,
}

/// Rgb labels are stored as their H.273 code points (any label can be reached through Yuv -> Rgb).
fn lab_of(t: TC, p: CP) -> usize {
    use yuvxyb::ToPrimitive;
    (t.to_usize().unwrap() << 8) | p.to_usize().unwrap()
}
fn lab_to(l: usize) -> (TC, CP) {
    use yuvxyb::FromPrimitive;
    (TC::from_usize(l >> 8).unwrap(), CP::from_usize(l & 0xFF).unwrap())
}
fn rcfg_lab(i: usize) -> usize {
    lab_of(RCFG[i].0, RCFG[i].1)
}

impl Seq {
    /// Execute one action on the real library. None = the action is not applicable / returned Err
    /// (errors are legal outcomes: no state change).
    fn step(&self, s: &St, a: &Act) -> Option<Body> {
        let (w, h) = (s.w as usize, s.h as usize);
        let pad = (s.depth as usize % 2) * 3; // vary the plane layout along a path
        let run = || -> Option<Body> {
            match (&s.body, a) {
                (Body::Yuv { cfg, planes }, act) => {
                    let wide = YCFG[*cfg].0;
                    macro_rules! with_yuv {
                        ($t:ty) => {{
                            let y = match build_yuv::<$t>(w, h, *cfg, planes, pad) {
                                Ok(y) => y,
                                Err(e) => return Some(Body::Invalid { what: e }),
                            };
                            let keep = y.clone();
                            let c = y.config();
                            let out = match act {
                                Act::ToRgbRef => Rgb::try_from(&y).ok().map(|r| float_body("rgb", r.data(), r.width(), r.height(), w, h, lab_of(r.transfer(), r.primaries()))),
                                Act::ToRgbVal => Rgb::try_from(y.clone()).ok().map(|r| float_body("rgb", r.data(), r.width(), r.height(), w, h, lab_of(r.transfer(), r.primaries()))),
                                Act::ToLin => LinearRgb::try_from(&y).ok().map(|r| float_body("lin", r.data(), r.width(), r.height(), w, h, 0)),
                                Act::ToXyb => Xyb::try_from(&y).ok().map(|r| float_body("xyb", r.data(), r.width(), r.height(), w, h, 0)),
                                Act::Rewrap => {
                                    let f = Frame { planes: [y.data()[0].clone(), y.data()[1].clone(), y.data()[2].clone()] };
                                    Some(match Yuv::<$t>::new(f, c) {
                                        Ok(y2) => yuv_body(&y2, *cfg, w, h),
                                        Err(e) => Body::Invalid { what: format!("re-wrapping a reached YUV image failed: {e:?}") },
                                    })
                                }
                                _ => None,
                            };
                            if y.data().iter().zip(keep.data().iter()).any(|(a, b)| a != b) {
                                return Some(Body::Invalid { what: "borrowed Yuv source modified".into() });
                            }
                            out
                        }};
                    }
                    if wide {
                        with_yuv!(u16)
                    } else {
                        with_yuv!(u8)
                    }
                }
                (Body::Rgb { lab, data }, act) => {
                    let (t, p) = lab_to(*lab);
                    let rgb = Rgb::new(floats(data), w, h, t, p).ok()?;
                    match act {
                        Act::ToLin => LinearRgb::try_from(rgb).ok().map(|r| float_body("lin", r.data(), r.width(), r.height(), w, h, 0)),
                        Act::ToXyb => Xyb::try_from(rgb).ok().map(|r| float_body("xyb", r.data(), r.width(), r.height(), w, h, 0)),
                        Act::ToYuv(ci) => {
                            if YCFG[*ci].0 {
                                Yuv::<u16>::try_from((rgb, ycfg(*ci))).ok().map(|y| yuv_body(&y, *ci, w, h))
                            } else {
                                Yuv::<u8>::try_from((rgb, ycfg(*ci))).ok().map(|y| yuv_body(&y, *ci, w, h))
                            }
                        }
                        Act::ToYuvRef(ci) => {
                            let before = bits(rgb.data());
                            let out = if YCFG[*ci].0 {
                                Yuv::<u16>::try_from((&rgb, ycfg(*ci))).ok().map(|y| yuv_body(&y, *ci, w, h))
                            } else {
                                Yuv::<u8>::try_from((&rgb, ycfg(*ci))).ok().map(|y| yuv_body(&y, *ci, w, h))
                            };
                            if bits(rgb.data()) != before {
                                return Some(Body::Invalid { what: "borrowed Rgb source modified".into() });
                            }
                            out
                        }
                        Act::Rewrap => Rgb::new(rgb.data().to_vec(), w, h, t, p).ok().map(|r| float_body("rgb", r.data(), r.width(), r.height(), w, h, *lab)),
                        Act::ViaYuv(ci, x) => {
                            if YCFG[*ci].0 {
                                via_yuv(Yuv::<u16>::try_from((&rgb, ycfg(*ci))), *ci, *x, w, h)
                            } else {
                                via_yuv(Yuv::<u8>::try_from((&rgb, ycfg(*ci))), *ci, *x, w, h)
                            }
                        }
                        Act::Poke(i, c, v) => {
                            let mut r = rgb;
                            r.data_mut()[*i][*c] = f32::from_bits(POKES[*v]);
                            Some(float_body("rgb", r.data(), r.width(), r.height(), w, h, *lab))
                        }
                        _ => None,
                    }
                }
                (Body::Lin { data }, act) => {
                    let lin = LinearRgb::new(floats(data), w, h).ok()?;
                    match act {
                        Act::ToRgbLab(l) => Rgb::try_from((lin, RCFG[*l].0, RCFG[*l].1)).ok().map(|r| float_body("rgb", r.data(), r.width(), r.height(), w, h, lab_of(r.transfer(), r.primaries()))),
                        Act::ToXyb => {
                            let r = Xyb::from(lin);
                            Some(float_body("xyb", r.data(), r.width(), r.height(), w, h, 0))
                        }
                        Act::ToHsl => {
                            let r = Hsl::from(lin);
                            Some(float_body("hsl", r.data(), r.width(), r.height(), w, h, 0))
                        }
                        Act::ToYuv(ci) => {
                            if YCFG[*ci].0 {
                                Yuv::<u16>::try_from((lin, ycfg(*ci))).ok().map(|y| yuv_body(&y, *ci, w, h))
                            } else {
                                Yuv::<u8>::try_from((lin, ycfg(*ci))).ok().map(|y| yuv_body(&y, *ci, w, h))
                            }
                        }
                        Act::Rewrap => LinearRgb::new(lin.data().to_vec(), w, h).ok().map(|r| float_body("lin", r.data(), r.width(), r.height(), w, h, 0)),
                        Act::ViaYuv(ci, x) => {
                            if YCFG[*ci].0 {
                                via_yuv(Yuv::<u16>::try_from((lin, ycfg(*ci))), *ci, *x, w, h)
                            } else {
                                via_yuv(Yuv::<u8>::try_from((lin, ycfg(*ci))), *ci, *x, w, h)
                            }
                        }
                        Act::ViaRgb(l) => {
                            let rgb = Rgb::try_from((lin, RCFG[*l].0, RCFG[*l].1)).ok()?;
                            let bad_labels = rgb.transfer() == TC::Unspecified || rgb.primaries() == CP::Unspecified;
                            let what = format!("Rgb labelled {:?}/{:?} after conversion", rgb.transfer(), rgb.primaries());
                            let out = LinearRgb::try_from(rgb).ok().map(|r| float_body("lin", r.data(), r.width(), r.height(), w, h, 0));
                            if bad_labels {
                                return Some(Body::Invalid { what });
                            }
                            out
                        }
                        Act::Poke(i, c, v) => {
                            let mut r = lin;
                            r.data_mut()[*i][*c] = f32::from_bits(POKES[*v]);
                            Some(float_body("lin", r.data(), r.width(), r.height(), w, h, 0))
                        }
                        _ => None,
                    }
                }
                (Body::Xyb { data }, act) => {
                    let xyb = Xyb::new(floats(data), w, h).ok()?;
                    match act {
                        Act::ToLin => {
                            let r = LinearRgb::from(xyb);
                            Some(float_body("lin", r.data(), r.width(), r.height(), w, h, 0))
                        }
                        Act::ToRgbLab(l) => Rgb::try_from((xyb, RCFG[*l].0, RCFG[*l].1)).ok().map(|r| float_body("rgb", r.data(), r.width(), r.height(), w, h, lab_of(r.transfer(), r.primaries()))),
                        Act::ToYuv(ci) => {
                            if YCFG[*ci].0 {
                                Yuv::<u16>::try_from((xyb, ycfg(*ci))).ok().map(|y| yuv_body(&y, *ci, w, h))
                            } else {
                                Yuv::<u8>::try_from((xyb, ycfg(*ci))).ok().map(|y| yuv_body(&y, *ci, w, h))
                            }
                        }
                        Act::Rewrap => Xyb::new(xyb.data().to_vec(), w, h).ok().map(|r| float_body("xyb", r.data(), r.width(), r.height(), w, h, 0)),
                        Act::ViaYuv(ci, x) => {
                            if YCFG[*ci].0 {
                                via_yuv(Yuv::<u16>::try_from((xyb, ycfg(*ci))), *ci, *x, w, h)
                            } else {
                                via_yuv(Yuv::<u8>::try_from((xyb, ycfg(*ci))), *ci, *x, w, h)
                            }
                        }
                        Act::ViaRgb(l) => {
                            let rgb = Rgb::try_from((xyb, RCFG[*l].0, RCFG[*l].1)).ok()?;
                            LinearRgb::try_from(rgb).ok().map(|r| float_body("lin", r.data(), r.width(), r.height(), w, h, 0))
                        }
                        Act::Poke(i, c, v) => {
                            let mut r = xyb;
                            r.data_mut()[*i][*c] = f32::from_bits(POKES[*v]);
                            Some(float_body("xyb", r.data(), r.width(), r.height(), w, h, 0))
                        }
                        _ => None,
                    }
                }
                (Body::Hsl { data }, act) => {
                    let hsl = Hsl::new(floats(data), w, h).ok()?;
                    match act {
                        Act::ToLin => {
                            let r = LinearRgb::from(hsl);
                            Some(float_body("lin", r.data(), r.width(), r.height(), w, h, 0))
                        }
                        Act::Rewrap => Hsl::new(hsl.data().to_vec(), w, h).ok().map(|r| float_body("hsl", r.data(), r.width(), r.height(), w, h, 0)),
                        Act::Poke(i, c, v) => {
                            let mut r = hsl;
                            r.data_mut()[*i][*c] = f32::from_bits(POKES[*v]);
                            Some(float_body("hsl", r.data(), r.width(), r.height(), w, h, 0))
                        }
                        _ => None,
                    }
                }
                _ => None,
            }
        };
        match guarded(run) {
            Ok(b) => b,
            Err(msg) => {
                let ub = msg.contains("VERIF-HOOK") || msg.contains("unsafe precondition");
                let site = if let Some(i) = msg.find("site=") {
                    msg[i..].split(' ').next().unwrap_or("").to_string()
                } else {
                    msg.chars().map(|c| if c.is_ascii_digit() { '#' } else { c }).take(70).collect()
                };
                Some(Body::Crashed { ub, site })
            }
        }
    }
}

impl Model for Seq {
    type State = St;
    type Action = Act;

    fn init_states(&self) -> Vec<St> {
        self.inits.clone()
    }

    fn actions(&self, s: &St, out: &mut Vec<Act>) {
        if s.depth >= self.max_depth {
            return;
        }
        let pokes = |out: &mut Vec<Act>, n: usize| {
            if s.devs < self.max_devs {
                // first and last pixel, first and last component, every special value
                for i in [0, n - 1] {
                    for c in [0usize, 2] {
                        for v in 0..POKES.len() {
                            out.push(Act::Poke(i, c, v));
                        }
                    }
                }
            }
        };
        match &s.body {
            Body::Yuv { .. } => out.extend([Act::ToRgbRef, Act::ToRgbVal, Act::ToLin, Act::ToXyb, Act::Rewrap]),
            Body::Rgb { data, .. } => {
                out.extend([Act::ToLin, Act::ToXyb, Act::Rewrap]);
                for c in 0..YCFG.len() {
                    out.push(Act::ToYuv(c));
                    out.push(Act::ToYuvRef(c));
                    out.push(Act::ViaYuv(c, c % 2 == 0));
                }
                pokes(out, data.len());
            }
            Body::Lin { data } => {
                out.extend([Act::ToXyb, Act::ToHsl, Act::Rewrap]);
                for l in 0..RCFG.len() {
                    out.push(Act::ToRgbLab(l));
                    out.push(Act::ViaRgb(l));
                }
                for c in 0..YCFG.len() {
                    out.push(Act::ToYuv(c));
                    out.push(Act::ViaYuv(c, c % 2 == 1));
                }
                pokes(out, data.len());
            }
            Body::Xyb { data } => {
                out.extend([Act::ToLin, Act::Rewrap]);
                for l in 0..RCFG.len() {
                    out.push(Act::ToRgbLab(l));
                }
                out.push(Act::ViaRgb(RCFG.len() - 1));
                for c in 0..YCFG.len() {
                    out.push(Act::ToYuv(c));
                    out.push(Act::ViaYuv(c, false));
                }
                pokes(out, data.len());
            }
            Body::Hsl { data } => {
                out.extend([Act::ToLin, Act::Rewrap]);
                pokes(out, data.len());
            }
            Body::Crashed { .. } | Body::Invalid { .. } => {}
        }
    }

    fn next_state(&self, s: &St, a: Act) -> Option<St> {
        let body = self.step(s, &a)?;
        let devs = s.devs + matches!(a, Act::Poke(..)) as u8;
        Some(St { depth: s.depth + 1, devs, w: s.w, h: s.h, body })
    }

    fn properties(&self) -> Vec<Property<Self>> {
        vec![
            Property::<Self>::always("C07 no unsafe precondition violated", |_, s| !matches!(s.body, Body::Crashed { ub: true, .. })),
            Property::<Self>::always("C13 conversions are total", |_, s| !matches!(s.body, Body::Crashed { ub: false, .. })),
            Property::<Self>::always("C11/C12/C13 reached images are well-formed", |_, s| !matches!(s.body, Body::Invalid { .. })),
        ]
    }
}

fn inits(tier_thorough: bool) -> Vec<St> {
    let mut v = vec![];
    let code = |p: usize, i: usize, max: u32| (((p * 83 + i * 37 + 11) as u32) % (max + 1)) as u16;
    for (ci, (w, h)) in [(0usize, (2u8, 2u8)), (1, (4, 4)), (2, (4, 2)), (3, (4, 4)), (4, (3, 3)), (5, (2, 4)), (6, (1, 3)), (7, (2, 1))] {
        let c = ycfg(ci);
        let max = (1u32 << c.bit_depth) - 1;
        let (cw, ch) = ((w as usize) >> c.subsampling_x, (h as usize) >> c.subsampling_y);
        let planes = [
            (0..(w as usize * h as usize)).map(|i| code(0, i, max)).collect(),
            (0..cw * ch).map(|i| code(1, i, max)).collect(),
            (0..cw * ch).map(|i| code(2, i, max)).collect(),
        ];
        v.push(St { depth: 0, devs: 0, w, h, body: Body::Yuv { cfg: ci, planes } });
    }
    let special: [[f32; 3]; 9] = [
        [0.0, 0.5, 1.0],
        [-0.25, 1.5, 1e-40],
        [0.2, 0.4, 0.8],
        [1.0, 1.0, 1.0],
        [0.9, 0.1, 0.1],
        [0.0, 0.0, 0.0],
        [0.5, 0.5, 0.5],
        [3e38, -3e38, 0.5],
        [0.01, 0.99, 0.33],
    ];
    let img = |n: usize| -> Vec<[u32; 3]> { bits(&(0..n).map(|i| special[i % 9]).collect::<Vec<_>>()) };
    let mut sizes = vec![(2u8, 2u8), (3, 1), (3, 3)];
    if tier_thorough {
        sizes.push((4, 4));
    }
    for (w, h) in sizes {
        let n = w as usize * h as usize;
        v.push(St { depth: 0, devs: 0, w, h, body: Body::Lin { data: img(n) } });
        v.push(St { depth: 0, devs: 0, w, h, body: Body::Rgb { lab: rcfg_lab(4), data: img(n) } });
        v.push(St { depth: 0, devs: 0, w, h, body: Body::Xyb { data: img(n) } });
    }
    v.push(St { depth: 0, devs: 0, w: 2, h: 2, body: Body::Hsl { data: bits(&[[350.0, 0.5, 0.5], [0.0, 1.0, 0.0], [120.0, 0.2, 1.0], [359.99, 1.0, 0.5]]) } });
    v
}

fn model(thorough: bool) -> Seq {
    let d = std::env::var("SEQ_DEPTH").ok().and_then(|s| s.parse().ok()).unwrap_or(if thorough { 4 } else { 3 });
    let v = std::env::var("SEQ_DEVS").ok().and_then(|s| s.parse().ok()).unwrap_or(2);
    Seq { max_depth: d, max_devs: v, inits: inits(thorough) }
}

fn act_str(a: &Act) -> String {
    format!("{a:?}")
}

fn replay_path(thorough: bool, init: usize, acts: &[String]) -> (bool, String) {
    let m = model(thorough);
    let mut s = m.inits[init].clone();
    for a in acts {
        let mut avail = vec![];
        m.actions(&s, &mut avail);
        let Some(act) = avail.into_iter().find(|x| act_str(x) == *a) else { return (false, format!("action {a} not enabled in replay")) };
        match m.next_state(&s, act) {
            Some(n) => s = n,
            None => return (false, format!("action {a} produced no state in replay")),
        }
    }
    match &s.body {
        Body::Crashed { ub, site } => (true, format!("crashed ub={ub} {site}")),
        Body::Invalid { what } => (true, format!("invalid {what}")),
        _ => (false, "path ends in a well-formed state".into()),
    }
}

/// Depth-first enumeration of every path from one initial state, writing the path to a journal
/// file *before* each transition executes: if the process dies, the last line is the killing path.
fn journal_dfs(thorough: bool, init: usize, journal: &str) {
    use std::io::Write;
    let m = model(thorough);
    let mut f = std::io::BufWriter::new(std::fs::File::create(journal).expect("journal"));
    let mut seen = std::collections::HashSet::new();
    let mut stack: Vec<(St, Vec<String>)> = vec![(m.inits[init].clone(), vec![])];
    while let Some((s, path)) = stack.pop() {
        if !seen.insert(s.clone()) {
            continue;
        }
        let mut acts = vec![];
        m.actions(&s, &mut acts);
        for a in acts {
            let mut p2 = path.clone();
            p2.push(act_str(&a));
            writeln!(f, "{}", p2.join(";")).unwrap();
            f.flush().unwrap();
            if let Some(n) = m.next_state(&s, a) {
                stack.push((n, p2));
            }
        }
    }
}

fn run_child(args: &[&str]) -> (bool, bool, String) {
    use std::os::unix::process::ExitStatusExt;
    let exe = std::env::current_exe().unwrap();
    let out = std::process::Command::new(exe).args(args).stdout(std::process::Stdio::null()).stderr(std::process::Stdio::piped()).output().expect("spawn");
    let err = String::from_utf8_lossy(&out.stderr).to_string();
    let tail: String = err.lines().rev().find(|l| !l.trim().is_empty()).unwrap_or("").chars().take(200).collect();
    let sig = out.status.signal();
    let resource = sig == Some(9) || err.contains("memory allocation of");
    let died_ub = !out.status.success() && !resource && (sig.is_some() || err.contains("unsafe precondition"));
    (out.status.success(), died_ub, format!("{}; stderr: {tail}", out.status))
}

fn main() {
    install_panic_hook();
    let args: Vec<String> = std::env::args().collect();
    if args.len() >= 5 && args[1] == "journal" {
        journal_dfs(args[2] == "thorough", args[3].parse().unwrap(), &args[4]);
        return;
    }
    if args.len() >= 3 && args[1] == "replay" {
        let v: Value = serde_json::from_str(&std::fs::read_to_string(&args[2]).expect("read")).expect("json");
        let case = if v.get("case").is_some() { &v["case"] } else { &v };
        let acts: Vec<String> = case["actions"].as_array().unwrap().iter().map(|a| a.as_str().unwrap().to_string()).collect();
        let (viol, obs) = replay_path(case["thorough"].as_bool().unwrap_or(false), case["init"].as_u64().unwrap() as usize, &acts);
        println!("REPLAY violated={viol} :: {obs}");
        std::process::exit(if viol { 1 } else { 0 });
    }
    if args.len() >= 4 && args[1] == "run" {
        // run the exploration in a child process; if it dies with evidence of undefined behaviour,
        // localise the killing call sequence with the journalled depth-first enumeration
        let out_path = args.iter().position(|a| a == "--out").map(|i| args[i + 1].clone()).unwrap_or_else(|| "/dev/stdout".into());
        let (ok, ub, why) = run_child(&["explore", &args[2], &args[3], "--out", &out_path]);
        if ok {
            return;
        }
        if !ub {
            eprintln!("seq: exploration child failed for a machinery reason: {why}");
            std::process::exit(2);
        }
        let thorough = args[3] == "thorough";
        let scratch = std::env::var("MC_SCRATCH").unwrap_or_else(|_| std::env::temp_dir().to_string_lossy().to_string());
        let n = model(thorough).inits.len();
        let mut viols = vec![];
        for init in 0..n {
            let j = format!("{scratch}/seq-journal-{}-{init}.txt", std::process::id());
            let (ok2, ub2, why2) = run_child(&["journal", &args[3], &init.to_string(), &j]);
            if !ok2 && ub2 {
                let txt = std::fs::read_to_string(&j).unwrap_or_default();
                let last = txt.lines().last().unwrap_or("").to_string();
                let acts: Vec<String> = last.split(';').filter(|s| !s.is_empty()).map(|s| s.to_string()).collect();
                viols.push(json!({"key": "process-abort call-sequence", "detail": format!("init #{init} then {acts:?}: the process died: {why2}"), "index": acts.len(),
                    "case": {"kind":"seq","thorough":thorough,"init":init,"actions":acts,"expect_death":true}}));
            }
            let _ = std::fs::remove_file(&j);
            if !viols.is_empty() {
                break;
            }
        }
        let found = !viols.is_empty();
        let rep = json!({
            "property": args[2], "states": 1, "transitions": 1, "buckets": {"exploration child died (undefined behaviour in the subject)": 1}, "worst": {},
            "samples": [{"note": "exploration aborted by the death of the child process", "why": why}],
            "violations": viols, "bound": "aborted", "exhaustive": false, "rule": "see the non-aborted report", "assumptions": [], "extra": {},
            "guards": [{"name": "the death of the exploration child could be localised to one call sequence", "ok": found}],
            "wall_s": 0.0, "tier": args[3], "build": {"crate":"seq"},
        });
        std::fs::write(&out_path, serde_json::to_string_pretty(&rep).unwrap()).expect("write");
        return;
    }
    if args.len() < 4 || args[1] != "explore" {
        eprintln!("usage: seq run <C07|C13> <quick|thorough> --out <file> | seq replay <file>");
        std::process::exit(2);
    }
    let prop = args[2].clone();
    let thorough = args[3] == "thorough";
    let out = args.iter().position(|a| a == "--out").map(|i| args[i + 1].clone());
    let t0 = std::time::Instant::now();
    let threads = std::env::var("VERIF_THREADS").ok().and_then(|s| s.parse().ok()).unwrap_or_else(|| std::thread::available_parallelism().map(|n| n.get()).unwrap_or(8));
    // run twice (many threads, one thread): identical unique-state counts prove the harness is deterministic
    let c1 = model(thorough).checker().threads(threads).spawn_bfs().join();
    let c2 = model(thorough).checker().threads(1).spawn_bfs().join();
    let (u1, u2) = (c1.unique_state_count(), c2.unique_state_count());
    let mut viols = vec![];
    let m = model(thorough);
    for (name, path) in c1.discoveries() {
        let mine = (prop == "C07" && name.starts_with("C07")) || (prop == "C13" && !name.starts_with("C07"));
        let states = path.clone().into_states();
        let init = m.inits.iter().position(|s| *s == states[0]).unwrap_or(0);
        let acts: Vec<String> = path.into_actions().iter().map(act_str).collect();
        let last = states.last().unwrap();
        let (key, detail) = match &last.body {
            Body::Crashed { ub, site } => (format!("call-sequence {} {}", if *ub { "ub-hook" } else { "panic" }, site), format!("init #{init} ({}x{}) then {:?}: conversion crashed: {site}", last.w, last.h, acts)),
            Body::Invalid { what } => ("call-sequence malformed-image".to_string(), format!("init #{init} then {:?}: {what}", acts)),
            _ => ("call-sequence ?".to_string(), String::new()),
        };
        if mine {
            viols.push(json!({"key": key, "detail": detail, "index": acts.len(), "case": {"kind":"seq","thorough":thorough,"init":init,"actions":acts}}));
        }
    }
    let det_ok = u1 == u2 || !c1.discoveries().is_empty();
    let lin_actions: Vec<String> = {
        let mut a = vec![];
        m.actions(&m.inits[8], &mut a);
        a.iter().map(act_str).collect()
    };
    let sample_state = format!("{:?}", m.inits[1]).chars().take(300).collect::<String>();
    let rep = json!({
        "property": prop,
        "states": u1,
        "transitions": c1.state_count(),
        "buckets": {"unique states": u1, "generated states (transitions taken)": c1.state_count(), "max depth reached": c1.max_depth()},
        "worst": {},
        "samples": [{"engine":"stateright BFS","initial_state_example": sample_state, "actions_from_a_LinearRgb_state": lin_actions}],
        "violations": viols,
        "bound": format!("all call sequences of depth <= {} over {} initial images (8 YUV frames covering every subsampling/depth/storage of the covering config alphabet; float images 2x2, 3x1, 3x3{} over special values) with actions = every public conversion x covering config alphabet (8 YUV configs incl. one with Unspecified transfer/primaries, 7 RGB label pairs), Rewrap through the public constructor, two conversions chained on the live intermediate object (X -> Yuv(cfg) -> LinearRgb/Xyb, X -> Rgb(labels) -> LinearRgb), and at most {} Poke deviation (NaN, +-inf, -3e38, 1e-40 through data_mut())", m.max_depth, m.inits.len(), if thorough {", 4x4"} else {""}, m.max_devs),
        "exhaustive": true,
        "rule": "stateright explicit-state BFS; next_state rebuilds the real image, runs the real conversion inside catch_unwind and serialises the result; always-properties: no unsafe-precondition hook fires, no conversion panics, every reached image keeps its dimensions, every reached YUV image holds only valid codes and re-wraps, borrowed sources stay unmodified",
        "assumptions": ["depth and deviation bounds as stated; the full configuration product is covered stage by stage by engine E1"],
        "extra": {"unique_states_parallel": u1, "unique_states_single_thread": u2, "max_depth": c1.max_depth()},
        "guards": [
            {"name": "parallel and single-threaded BFS agree on the number of unique states (deterministic harness)", "ok": det_ok},
            {"name": "depth bound reached", "ok": c1.max_depth() as u8 >= m.max_depth || !c1.discoveries().is_empty()},
            {"name": "state space not trivially small", "ok": u1 > 1000 || !c1.discoveries().is_empty()},
        ],
        "wall_s": t0.elapsed().as_secs_f64(),
        "tier": if thorough {"thorough"} else {"quick"},
        "build": {"crate":"seq","fastmath_requested": cfg!(feature="fastmath"), "debug_assertions": cfg!(debug_assertions)},
    });
    let s = serde_json::to_string_pretty(&rep).unwrap();
    match out {
        Some(p) => std::fs::write(p, s).expect("write"),
        None => println!("{s}"),
    }
}
