#!/usr/bin/env python3
"""Property-preserving changes: does any check raise a false alarm?

  tools/benign.py import <src dir> <n> <id>   verify patch_<n>.diff (applies, builds, suite as baseline, the author's own
                                              benign_<n>.rs test passes with it) in a scratch worktree; store as benign/<id>/
  tools/benign.py run <id> [<check ids>...]   apply to the tree the checks build from (SEED_REPO, default /repo), run the
                                              quick checks (default: all 20), revert, record verdicts in benign/<id>/meta.json

A non-zero exit of a check on such a change is either a false alarm (to be corrected in the check) or shows that the
change is not property-preserving after all (then it is a detection and says so in meta.json after triage).
"""
import json, os, shutil, subprocess, sys, tempfile, time

ROOT = os.path.dirname(os.path.dirname(os.path.abspath(__file__)))
BENIGN = os.path.join(ROOT, "benign")
REPO = os.environ.get("SEED_REPO", "/repo")
ALL = [f"C{i:02d}" for i in range(1, 21)]


def sh(cmd, cwd=None, timeout=7200, env=None):
    p = subprocess.run(cmd, shell=isinstance(cmd, str), cwd=cwd, stdout=subprocess.PIPE, stderr=subprocess.STDOUT,
                       text=True, timeout=timeout, env=env)
    return p.returncode, p.stdout


def suite(cwd, env):
    rc, out = sh("cargo test --workspace --offline --no-fail-fast", cwd, env=env)
    res = [l.strip() for l in out.splitlines() if l.startswith("test result:")]
    failed = sorted(l.split()[1] for l in out.splitlines() if l.startswith("test ") and l.rstrip().endswith("FAILED"))
    return res, failed


def cmd_import(src, n, bid):
    wt = tempfile.mkdtemp(prefix="benign-wt-")
    os.rmdir(wt)
    env = dict(os.environ, CARGO_NET_OFFLINE="true", CARGO_TARGET_DIR="/tmp/seed-target")
    meta = {"id": bid, "source": "independent sub-agent given the twenty property texts and a scratch worktree; asked for a "
                                  "realistic change that alters behaviour but keeps every property true", "verified": {}}
    try:
        assert sh(f"git -C /repo worktree add -q --detach {wt} HEAD")[0] == 0
        shutil.copy("/repo/Cargo.lock", os.path.join(wt, "Cargo.lock"))
        patch = os.path.join(src, f"patch_{n}.diff")
        rc, out = sh(f"git apply {patch}", wt)
        meta["verified"]["patch_applies"] = rc == 0
        rc, out = sh("cargo build --offline", wt, env=env)
        meta["verified"]["compiles"] = rc == 0
        res, failed = suite(wt, env)
        meta["verified"]["suite_with_patch"] = res
        meta["verified"]["suite_failed_tests_with_patch"] = failed
        meta["verified"]["suite_same_as_baseline"] = failed == ["rgb_xyb::tests::xyb_to_rgb_correct"]
        test = os.path.join(src, f"benign_{n}.rs")
        if os.path.exists(test):
            os.makedirs(os.path.join(wt, "tests"), exist_ok=True)
            shutil.copy(test, os.path.join(wt, "tests", "benign_demo.rs"))
            rc, out = sh("cargo test --offline --test benign_demo", wt, env=env)
            meta["verified"]["authors_own_test_passes_with_patch"] = rc == 0
    finally:
        sh(f"git -C /repo worktree remove --force {wt}")
        sh("git -C /repo worktree prune")
    ok = all(meta["verified"].get(k) for k in ("patch_applies", "compiles", "suite_same_as_baseline"))
    meta["kept"] = ok
    print(json.dumps(meta["verified"], indent=1))
    if not ok:
        print("REJECTED:", bid)
        return 1
    d = os.path.join(BENIGN, bid)
    os.makedirs(d, exist_ok=True)
    shutil.copy(os.path.join(src, f"patch_{n}.diff"), os.path.join(d, "patch.diff"))
    if os.path.exists(os.path.join(src, f"benign_{n}.rs")):
        shutil.copy(os.path.join(src, f"benign_{n}.rs"), os.path.join(d, "authors_test.rs"))
    if os.path.exists(os.path.join(src, "notes.md")):
        shutil.copy(os.path.join(src, "notes.md"), os.path.join(d, "author_notes.md"))
    json.dump(meta, open(os.path.join(d, "meta.json"), "w"), indent=1)
    print("KEPT:", bid)
    return 0


def cmd_run(bid, checks):
    d = os.path.join(BENIGN, bid)
    meta = json.load(open(os.path.join(d, "meta.json")))
    checks = checks or ALL
    store = os.environ.get("SEED_STORE", "check_results")
    rc, out = sh(f"git -C {REPO} status --porcelain")
    assert out.strip() == "", f"{REPO} is not clean"
    res = meta.setdefault(store, {})
    ev_dir = os.path.join(ROOT, "evidence")
    ev_bak = tempfile.mkdtemp(prefix="evidence-bak-")
    for f in os.listdir(ev_dir):
        shutil.copy(os.path.join(ev_dir, f), ev_bak)
    try:
        rc, out = sh(f"git -C {REPO} apply {os.path.join(d, 'patch.diff')}")
        assert rc == 0, out
        for c in checks:
            t0 = time.time()
            rc, out = sh([os.path.join(ROOT, "check"), c, "quick"], ROOT)
            lines = [l.strip() for l in out.splitlines() if l.startswith("  violation") or l.startswith("MACHINERY")]
            res[c] = {"exit": rc, "first": (lines[0] if lines else "")[:400], "wall_s": round(time.time() - t0, 1)}
            print(f"{bid} {c}: exit={rc} {(lines[0] if lines else '')[:200]}")
    finally:
        sh(f"git -C {REPO} checkout -- .")
        for f in os.listdir(ev_bak):
            shutil.copy(os.path.join(ev_bak, f), ev_dir)
        shutil.rmtree(ev_bak)
    meta["alarms"] = sorted(c for c, r in res.items() if r["exit"] != 0)
    json.dump(meta, open(os.path.join(d, "meta.json"), "w"), indent=1)
    return 0


if __name__ == "__main__":
    a = sys.argv[1:]
    if len(a) >= 4 and a[0] == "import":
        sys.exit(cmd_import(a[1], int(a[2]), a[3]))
    if len(a) >= 2 and a[0] == "run":
        sys.exit(cmd_run(a[1], a[2:]))
    print(__doc__)
    sys.exit(2)
