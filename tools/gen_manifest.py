#!/usr/bin/env python3
"""Regenerates /verif/MANIFEST.json from the table below (single source of truth for the interface)."""
import json, os, subprocess
ROOT = os.path.dirname(os.path.dirname(os.path.abspath(__file__)))

# id -> (engine, technique, level text, level note, design ref)
CHECKS = {
 "C01": ("E1-product-explorer",
         "exhaustive enumeration of (config x code triple) product spaces on the real decoder vs f64 H.273 oracle",
         "Every one of the 140 (matrix, range, depth, storage) configurations is explored: all 2^24 code triples at 8 bit "
         "(all 2^27/2^30 at 9/10 bit in thorough), and beyond that the axis-exhaustive cross (every code of every plane x 15^2 "
         "boundary cross-terms) plus a full lattice product. Each state is decoded by the real Rgb::try_from(&Yuv<T>) and "
         "compared with an independent f64 closed form at the property's own 3e-6 budget. Complete for the finite 8..10-bit "
         "domains; a stated finite bound above.",
         "Trusted: rustc/LLVM f64 arithmetic, the H.273 constants transcribed in mc/src/refmodel.rs, pointwiseness above 10 bit "
         "(decided by C11).", "DESIGN.md §4 C01"),
}

PENDING_REASON = "check not built yet in this round (planned, see DESIGN.md §4); not claimed until its machinery exists"

def main():
    props = [json.loads(l) for l in open(os.path.join(ROOT, "properties.jsonl"))]
    hooks_commits = subprocess.run(["git", "-C", "/repo", "log", "--format=%H %s"], capture_output=True, text=True).stdout.splitlines()
    hook_shas = [l.split()[0] for l in hooks_commits if "verif hooks" in l or "verif-hooks" in l]
    checks = []
    for p in props:
        pid = p["id"]
        if pid not in CHECKS:
            continue
        eng, tech, text, note, ref = CHECKS[pid]
        checks.append({
            "property_id": pid,
            "quick_cmd": f"./check {pid} quick",
            "thorough_cmd": f"./check {pid} thorough",
            "evidence_file": f"/verif/evidence/{pid}.json",
            "replay_cmd_template": "./check replay {path}",
            "engine": eng,
            "level_claimed": {"category": "model_checking", "text": text, "design_ref": ref},
            "level_note": note,
            "technique": tech,
        })
    na = [{"property_id": p["id"], "reason": PENDING_REASON} for p in props if p["id"] not in CHECKS]
    man = {
        "version": 1,
        "setup_cmd": "./check setup",
        "hooks": {
            "guard": "cargo feature `verif-hooks` (yuvxyb, forwarded to yuvxyb-math)",
            "enable": "the harness crates depend on /repo by path with features=[\"verif-hooks\"]; every check rebuilds from /repo's working tree through cargo",
            "baseline_off_cmd": "cd /repo && cargo test --workspace --no-fail-fast --offline",
            "source_commits": hook_shas,
            "add_only": True,
        },
        "engines": [
            {"name": "E1-product-explorer", "path": "/verif/mc", "serves_properties": sorted(k for k, v in CHECKS.items() if v[0].startswith("E1")),
             "kind_free_text": "stateless exhaustive exploration of finite (configuration x input) product domains on the real public API against f64 reference models; parallel, deterministic, replayable"},
        ],
        "checks": checks,
        "notes": "All checks: exit 0 held / 1 VIOLATION (replay file under /verif/replays) / 2 machinery problem. known_findings.json lists recorded and fixed defects. VERIF_SEED never changes coverage (nothing is sampled).",
        "not_applicable": na,
    }
    json.dump(man, open(os.path.join(ROOT, "MANIFEST.json"), "w"), indent=1)
    print(f"MANIFEST.json: {len(checks)} checks, {len(na)} not claimed")

if __name__ == "__main__":
    main()
