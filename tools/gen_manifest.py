#!/usr/bin/env python3
"""Regenerates /verif/MANIFEST.json from the table below (single source of truth for the interface)."""
import json, os, subprocess
ROOT = os.path.dirname(os.path.dirname(os.path.abspath(__file__)))

E1 = "E1-product-explorer"
E2 = "E2-geometry-explorer"
E4 = "E4-build-matrix"
TRUST = "Trusted: rustc/LLVM f64 arithmetic and libm, the constants transcribed from the standards in mc/src/refmodel.rs, the harness itself (safe Rust apart from its minimal-alignment global allocator, which hands the subject buffers aligned exactly as requested and not more). "

# id -> (engine, technique, level text, level note, design ref)
CHECKS = {
 "C01": (E1, "exhaustive enumeration of (config x code triple) product spaces on the real decoder vs an f64 H.273 oracle",
  "All 140 (matrix, range, depth, storage) configurations: every one of the 2^24 code triples at 8 bit (2^27 / 2^30 at 9 / 10 bit in thorough); above that the axis-exhaustive cross (every code of every plane x 15^2 boundary cross-terms) plus a full lattice product. Each state is decoded by the real Rgb::try_from(&Yuv<T>) and compared with an independent f64 closed form at the property's own 3e-6 budget. The check equals the property for 8..10 bit and is a stated finite bound above.",
  TRUST + "Pointwiseness above 10 bit is decided by C11."),
 "C02": (E1, "exhaustive product lattice + rounding-edge preimages of every code, real encoder vs f64 H.273 quantisation",
  "140 configurations x (full product of an 81/401-step axis alphabet on [-0.5,1.5] with f32 neighbours of the special points) + preimages of c, c+.5-eps, c+.5+eps for EVERY code c of every plane + gamut corners; each pixel goes through the real Yuv::try_from((&Rgb,cfg)) and must be within 0.5+1e-6*2^n of the ideal computed from the actual f32 inputs. The continuous cube is bounded by the stated alphabet; the code axis is complete.",
  TRUST + "The lattice bounds the continuous input cube."),
 "C03": (E1, "complete enumeration of all f32 in [0,1] through every transfer curve, both directions, vs f64 defining formulas",
  "thorough: all 1,065,353,217 f32 values of [0,1] x 14 characteristics x 2 directions through the real LinearRgb::try_from(Rgb) / Rgb::try_from((LinearRgb,t,p)) - the check is the property. quick: every f32 with low 6 mantissa bits zero (16.6 M, every binade) plus 513-value neighbourhoods of all branch thresholds; each of those values also as a uniform 19-pixel image whose 57 outputs must be bit-identical (position independence at the branch points); component-independence layouts (also with out-of-range companions inside the same pixel), greys of every binade through the same curves with BT.2020 and Display-P3 primaries, and large images.",
  TRUST + "xvYCC read as the 2.4 power on [0,1]; PQ scene-referred with BT.2100's rounded constants (DESIGN 2.3)."),
 "C04": (E1, "full product of a near-black-dense axis alphabet on [0,4]^3 and a negative well-conditioned lattice vs f64 opsin/cbrt model",
  "Every pixel of a 240^3 (quick) / 1540^3 (thorough) product alphabet (0, subnormal, 4*2^-k, uniform grid) and of the [-1,4]^3 lattice filtered by the statement's conditioning predicate goes through the real Xyb::from(LinearRgb) and is compared at 2e-6 with the definition quoted in the property.",
  TRUST),
 "C05": (E1, "full product alphabet on [0,1]^3 through the real forward and inverse XYB transforms",
  "LinearRgb -> Xyb -> LinearRgb on every pixel of the product alphabet (same shape as C04) must return the pixel within 5e-5; the forward transform is the oracle, as the property intends. Plus echo pairs for the inverse alone, each channel swept over 65,537 points with the others at three fixed levels, and three large images (65,539, 262,147, 1281x721 pixels).",
  "No reference constants involved; lattice bounds the continuous cube."),
 "C06": (E1, "full product lattice on [-0.5,2]^3 x 11 primaries x 2 directions vs f64 CIE/Bradford derivation",
  "All 22 directed pairs on the 51^3 (quick) / 501^3 (thorough) lattice plus basis vectors, white and greys, and three large images per pair (65,539, 262,147 and 1281x721 pixels): result vs M_out^-1*Bradford*M_in from the H.273 chromaticities, white preservation, there-and-back, bit-exact identity for equal primaries.",
  TRUST + "The map is linear, so the basis vectors determine it; the lattice bounds rounding."),
 "C07": ("E2+E1+E3 (staged, child processes)", "exhaustive geometry / deviation-bounded / float-pattern enumeration with assertion hooks before every unsafe operation, in release and checked builds, each stage in a child process",
  "Every frame of the small geometry box (full product) and every 0-, 1- and 2-deviation neighbour of every well-formed frame up to 12x12 (+63..65) is built through the public frame types; accepted frames run every conversion with bounds hooks armed. Encodes of every float-image size x subsampling and of every declared bit depth 8..16 with both storage types, every f32 bit pattern (thorough: all 2^32) into every curve in both directions with the to_int_unchecked hook armed, special-float cubes through every composite conversion, and (stateright, /verif/seq) every public call sequence up to depth 4/5 with at most 1/2 poke deviations. A hook firing, an accepted frame whose chroma planes cannot cover the luma plane, or the death of a child process (std ub_checks, allocator-detected corruption; bisected, replay confirmed natively or under valgrind) is a violation.",
  "Hooks cover the 5 unsafe sites of the two crates; frames are built through Plane::new/from_slice (not by corrupting PlaneConfig). Call-sequence depth beyond single conversions and round trips is bounded (see DESIGN)."),
 "C08": (E1, "exhaustive enumeration of (config x code triple) spaces through the real decode+encode round trip",
  "Same domain as C01 (all 2^24 triples at 8 bit for all 28 matrix/range/storage configs; 9 and 10 bit complete in thorough; axis cross + lattice above): decode, re-encode with the same config, compare code by code with the input clamped to the legal range; only full-range chroma 0->1 tolerated.",
  "Pointwiseness above 10 bit decided by C11."),
 "C09": (E1, "exhaustive enumeration of all supported metadata triples x ranges x depths x subsamplings on in-gamut colour lattices",
  "All 7x14x10 physical metadata triples x 2 ranges x 10 depth/storage pairs (19,600 4:4:4 configs) and 5 subsamplings x 3 depths with block-constant images; in-gamut images are constructed as the property defines them (real encoder on an RGB lattice of [0,1]^3), then Yuv->Xyb->Yuv must preserve dims/config and every sample within max(1, 0.015*(2^n-1)).",
  "The colour lattice bounds the continuous in-gamut set; ST 428 is run and reported only, as the property excludes it."),
 "C10": (E1, "complete enumeration of all f32 in [0,1] through gamma->linear->gamma for every curve",
  "thorough: all f32 of [0,1] x 14 characteristics through the real round trip (the check is the property); quick: the C03 stratum. No reference model.",
  "None beyond the harness."),
 "C11": (E2, "exhaustive enumeration of image sizes x subsamplings x paddings with metamorphic oracles (1x1-image equality, layout independence)",
  "Sizes 1..=64 (quick: 1..12,31..33,63,64) x 6 subsamplings x u8/u16 x 2 metadata sets: whole-image conversion vs the conversion of every pixel as a 1x1 image (bit-identical), re-run, by-value vs by-reference, same samples under other paddings/strides/poisons (0..=32 per axis at 4x4 and 8x8), borrowed sources compared with a clone; encodes: luma equals 4:4:4 luma, chroma from its own block, plane sizes. Plus call-history independence: all histories [a,b] and [a,b,a] over a 1,560 / ~4,700-operation alphabet (10 conversions x metadata varying every field x image variants), each on a fresh thread, every result compared with the same call made first; the same walk in one single-threaded child process against one fresh process per operation (process-wide state); large-frame histories (every conversion x storage/depth class 8/u8, 8/u16, 10, 12, 16 x both ranges on 65,539-pixel and 2x2 frames); float images overwritten through data_mut() must convert like images constructed with the final content; video-like sizes (1280x54 ...) and shapes just above 4096 pixels; decode also on structured content (every row flat, every column flat, one solid colour); encode also on saturated content (cube corners and out-of-range pixels at every position of a chroma block). Also: rejected calls (unsupported metadata) inside the histories; luma-plane decimation labels as one more layout; shapes just above 4096 / 16384 / 65536 pixels with an odd row count per band, every width 65..2050 on two rows, one 2561x1441 frame; every float pixel count 1..8192 as a row and as a column; provenance independence (the result of a conversion converts on like an image constructed from its data). A free-running two-thread observer over 2,300 operation pairs is attached (schedules sampled by the OS, not enumerated: it can add findings, it decides nothing).",
  "Position-coded content distinguishes neighbours/rows/columns and is not periodic in the 2^n / 256 / 1024 column or row distances; no expected values are used. Thread interleavings inside a conversion are not enumerated (DESIGN 5)."),
 "C12": (E2, "exhaustive small-box product + deviation-bounded enumeration of frame geometries vs a reference acceptance predicate",
  "Full product of the small geometry box, every well-formed base with every single and pair of deviations, one out-of-range sample at EVERY raw buffer position (visible and padding) for depths 8..15, all (len,w,h) in 0..=40 cubed for the four float constructors, all 19x14 label pairs for Rgb::new and all 15x19x14 metadata triples for Yuv::new (specified metadata is exposed as given; every float buffer also with a capacity that differs from its length; clone() and clone_from() of all five image types into destinations of other shape, labels and config; out-of-range samples with every single high bit): accept <=> predicate, the error variant must name a violated condition, accepted images are verbatim.",
  "Predicate transcribed from the statement (mc/src/geom.rs); a wrong-size chroma plane may be reported as any of the three geometry errors (DESIGN 2.3)."),
 "C13": ("E1+E3 (staged, child processes)", "exhaustive special-value cubes and stratified bit-pattern sweeps through every conversion and supported config, release and checked builds, child processes",
  "48^3 special-float cubes through all 14x11 curve/primaries pairs both ways, all 140 encode configs, XYB, HSL and the composite paths over curves x primaries x matrices x ranges x depths; every f32 pattern with low 12 (quick) / 8 (thorough) bits all-0/all-1 on each component; unit-cube lattice for finiteness; every conversion on 0x0, 0x3, 2x0, 1x1, 1x7, 7x1 images; 12 and 16 bit with every curve; 65,537-pixel images uniformly NaN / +-inf / -1 / 2 / 0 / 1e30 / subnormal; 65,600 identical calls of every kind of conversion (specified and Unspecified metadata) on one thread; stateright call sequences to depth 4/5. No panic/abort, every produced code <= 2^n-1 and re-wrappable.",
  "4:4:4 dimensions (other sizes: C07/C11/C12); a 0xN YUV frame is outside every property (v_frame cannot iterate it)."),
 "C14": (E1, "complete enumeration of all 3276 fully specified metadata triples x 10 conversions with a metamorphic offending-field oracle",
  "Every (matrix, primaries, transfer) triple without Unspecified x {u8/8,u16/10} x {limited,full} x 5 forward/reverse conversion pairs: never panics, errors are Unsupported* and name an offending field (replacing only that field removes the error), support is symmetric, single-stage pairs agree on the error, supported sets succeed, YUV<->RGB is bit-identical across all 234 label pairs. The check equals the property.",
  "'names an offending field' decided metamorphically; gamma<->linear error equality compared when the primaries are supported."),
 "C15": (E1, "exhaustive enumeration of threshold sizes x all matrices x every subset of Unspecified fields vs a reference transcription of the mpv rule, plus relational content check",
  "168 sizes x 240 configs for resolution purity and equality with the documented rule; all 19x14 label pairs for Rgb; for every conversion given Unspecified fields that succeeds (resolution also on 4:2:0 / 4:2:2 / 4:4:0 / 4:1:1 frames of the same luma size; content check over all matrices x a 3-value alphabet of the other fields x 3 depth classes, and four matrices x EVERY supported primaries and transfer next to Unspecified neighbours), the stored config must be the documented resolution and decoding the output with its own config must reproduce the input within the C09 budget (in codes after re-encoding; for gamma-RGB inputs also literally in the RGB domain).",
  "Sizes bounded to the listed threshold neighbourhoods."),
 "C16": (E1, "complete enumeration of every grey code at every depth and 2^20 linear grey levels through every stage",
  "All 130,816 luma codes x 140 configs (spread, exact black, white), 2^20+ grey levels through 14 curves x 2 directions, 22 primaries directions, XYB and HSL; the non-standard luma/chroma matrices wherever the library accepts them.",
  "The 2^20 grid + 2^-k stratum stands for the continuous linear grey axis; the code axis is complete."),
 "C17": (E1, "full product lattice of [0,1]^3 plus near-grey / near-boundary shells vs the f64 hexcone model",
  "400^3 (quick) / 2048^3 (thorough) RGB lattice plus shells at 1 ulp..1e-5 from every sextant boundary: range, hexcone agreement (L 1e-6, S 1e-4, H 0.01 deg), RGB->HSL->RGB within 1e-5; 1453 hues x 67^2 (S,L) for L=0 black / L=1 white.",
  TRUST),
 "C18": (E1, "complete enumeration of all 2^32 arguments of cbrtf and expf; exhaustive grids for powf; vs f64 libm",
  "cbrtf and expf on every f32 bit pattern (accuracy, oddness, tails, totality with the hook armed); powf on every positive normal x (thorough; 8.3 M in quick) for each of the 12 exponents the library uses, base 10 over the log-curve stratum, a 254 x 1024 x 1601 (x,y) product, and the lattice of 6 exponents x 2^10/2^12 mantissas x every t = y*log2(x) = k + j/256 (j/1024) with |y| <= 80, and y = +-2^-k, +-1.5*2^-k, +-80*2^-k for k = 0..40 against every binade (powf is exp2(y*log2 x): its error is a function of the mantissa and of the integer and fractional part of t); special x special for totality.",
  TRUST + "powf over (x,y) is bounded by the stated grids."),
 "C19": (E1, "exhaustive small-alphabet enumeration of 3x3 matrices, vectors and pairs vs f64 definitions, f32 and f64 instantiations",
  "All 7^9 (thorough; 5^9 quick) matrices over a dyadic alphabet and all 5^9 over a non-dyadic one x all vectors (mul_vec, mul_arr, transpose, identity, scalar_div, invert when |det|>=0.5), all vector pairs (cross, dot, component_mul, scalar_div), scalar_div by +-2^e and +-1.5*2^e for every exponent of f32 and f64 (subnormals included), products with an almost-identity factor (eps 1e-6..1e-5), mul_mat over {-1,0,1}^9 pairs, the library's own colour matrices.",
  "Entries in [-2,2] bounded by the stated alphabets."),
 "C20": (E4, "enumeration of all 8 build configurations, each re-running the C01-C06/C08/C09(light)/C10/C18/C19 explorations, plus pairwise cross-build comparison on identical inputs",
  "{fastmath on, off} x {FMA off, on} x {release, checked}: every configuration is built from the working tree and runs the explorations with their own budgets; the fastmath-off builds (requested exactly as a user would) must be libm-exact (curves 5e-5, helpers 2 ulp); 10 build pairs are compared output by output (bit-identical where the configuration difference cannot matter, within budget otherwise).",
  "quick uses reduced ('matrix tier') alphabets per build, thorough the full quick alphabets. PQ may match either self-consistent reading of the BT.2100 constants in the exact build (DESIGN 2.3)."),
}

PENDING_REASON = "check not built yet in this round (planned, see DESIGN.md §4); not claimed until its machinery exists"

def main():
    props = [json.loads(l) for l in open(os.path.join(ROOT, "properties.jsonl"))]
    log = subprocess.run(["git", "-C", "/repo", "log", "--format=%H %s"], capture_output=True, text=True).stdout.splitlines()
    hook_shas = [l.split()[0] for l in log if l.split(" ", 1)[1].startswith("verif hooks")]
    checks = []
    for p in props:
        pid = p["id"]
        if pid not in CHECKS:
            continue
        eng, tech, text, note = CHECKS[pid]
        checks.append({
            "property_id": pid,
            "quick_cmd": f"./check {pid} quick",
            "thorough_cmd": f"./check {pid} thorough",
            "evidence_file": f"/verif/evidence/{pid}.json",
            "replay_cmd_template": "./check replay {path}",
            "engine": eng,
            "level_claimed": {"category": "model_checking", "text": text, "design_ref": f"DESIGN.md §4 {pid}"},
            "level_note": note,
            "technique": tech,
        })
    na = [{"property_id": p["id"], "reason": PENDING_REASON} for p in props if p["id"] not in CHECKS]
    man = {
        "version": 1,
        "setup_cmd": "./check setup",
        "hooks": {
            "guard": "cargo feature `verif-hooks` (yuvxyb, forwarded to yuvxyb-math)",
            "enable": "the harness crates depend on /repo by path with features=[\"verif-hooks\"]; every check rebuilds from /repo's working tree through cargo",
            "baseline_off_cmd": "cd /repo && cargo test --workspace --no-fail-fast --offline",
            "source_commits": hook_shas,
            "add_only": True,
        },
        "engines": [
            {"name": E1, "path": "/verif/mc", "serves_properties": sorted(k for k, v in CHECKS.items() if v[0].startswith("E1")),
             "kind_free_text": "stateless exhaustive exploration of finite (configuration x input) product domains on the real public API against f64 reference models; parallel, deterministic, replayable"},
            {"name": E2, "path": "/verif/mc/src/geom.rs", "serves_properties": ["C07", "C11", "C12"],
             "kind_free_text": "frame-geometry space: full small-box product plus deviation-bounded (0,1,2 deviations) neighbourhoods of every well-formed frame, built through the public frame types"},
            {"name": "staged-child-isolation", "path": "/verif/mc/src/explore.rs", "serves_properties": ["C07", "C13"],
             "kind_free_text": "stages run in child processes; a dying child is classified (UB evidence vs resource), bisected to one case or a minimal range, and the replay is confirmed natively or under valgrind"},
            {"name": "E3-call-sequences", "path": "/verif/seq", "serves_properties": ["C07", "C13"],
             "kind_free_text": "stateright explicit-state BFS over all public constructor/conversion call sequences (depth 4 quick / 5 thorough, <= 1 / 2 poke deviations); each transition runs the real conversion; always-invariants on every state; parallel and single-threaded runs must agree on the unique-state count"},
            {"name": E4, "path": "/verif/mc/src/props/c20.rs", "serves_properties": ["C20"],
             "kind_free_text": "the build configuration as an enumerated input: 8 target directories, per-build exploration plus pairwise output comparison"},
        ],
        "checks": checks,
        "notes": "All checks: exit 0 held / 1 VIOLATION (replay file under /verif/replays, re-executed twice before being reported) / 2 machinery problem (build failure, vacuity guard, unreproducible observation). known_findings.json lists recorded and fixed defects. VERIF_SEED never changes coverage (nothing is sampled): it only rotates the order in which index chunks are handed to threads.",
        "not_applicable": na,
    }
    json.dump(man, open(os.path.join(ROOT, "MANIFEST.json"), "w"), indent=1)
    print(f"MANIFEST.json: {len(checks)} checks, {len(na)} not claimed")

if __name__ == "__main__":
    main()
