#!/usr/bin/env python3
"""Seeded-change management.

  tools/seeded.py import <src_dir> <n> <seed_id> <property>   verify an externally produced change (patch_<n>.diff, demo_<n>.rs)
                                                               in a scratch worktree and store it as /verif/seeded/<seed_id>/
  tools/seeded.py run <seed_id> [<check ids>...]               apply the patch to /repo, run the quick checks, revert, record verdicts
  tools/seeded.py matrix                                       summary table of recorded verdicts
"""
import json, os, subprocess, sys, shutil, tempfile, time
ROOT = os.path.dirname(os.path.dirname(os.path.abspath(__file__)))
SEEDED = os.path.join(ROOT, "seeded")
# the tree the checks build from: /repo, or (SEED_REPO) a scratch worktree a snapshot of /verif points at
REPO = os.environ.get("SEED_REPO", "/repo")
BASE_PASS = 39


def sh(cmd, cwd=None, timeout=3600):
    p = subprocess.run(cmd, cwd=cwd, shell=isinstance(cmd, str), stdout=subprocess.PIPE, stderr=subprocess.STDOUT, text=True, timeout=timeout)
    return p.returncode, p.stdout


def suite(cwd):
    rc, out = sh("cargo test --workspace --offline --no-fail-fast 2>&1", cwd)
    lines = [l for l in out.splitlines() if l.startswith("test result")]
    failed = sorted(l.split()[1] for l in out.splitlines() if l.startswith("test ") and l.rstrip().endswith("FAILED"))
    return lines, failed


def cmd_import(src, n, seed_id, prop):
    patch = os.path.join(src, f"patch_{n}.diff")
    demo = os.path.join(src, f"demo_{n}.rs")
    wt = tempfile.mkdtemp(prefix="seedwt-", dir="/tmp")
    os.rmdir(wt)
    meta = {"seed_id": seed_id, "breaks_property": prop, "source": "independent sub-agent given only the property text and a scratch worktree", "verified": {}}
    try:
        assert sh(f"git -C /repo worktree add -q --detach {wt} HEAD")[0] == 0
        shutil.copy("/repo/Cargo.lock", os.path.join(wt, "Cargo.lock"))
        os.makedirs(os.path.join(wt, "tests"), exist_ok=True)
        shutil.copy(demo, os.path.join(wt, "tests", "seed_demo.rs"))
        rf = os.environ.get("SEED_DEMO_RUSTFLAGS", "")
        env_target = f"CARGO_TARGET_DIR=/tmp/seed-target" + (f" RUSTFLAGS='{rf}'" if rf else "")
        meta["demo_rustflags"] = rf
        # pristine: demo passes
        flags = os.environ.get("SEED_DEMO_FLAGS", "")
        meta["demo_flags"] = flags
        # SEED_DEMO_MIRI=1: the demonstration observes UB and needs the interpreter
        test = "cargo +nightly miri test" if os.environ.get("SEED_DEMO_MIRI") else "cargo test"
        if os.environ.get("SEED_DEMO_MIRI"):
            env_target = "CARGO_TARGET_DIR=/tmp/seed-target-miri MIRIFLAGS='-Zmiri-disable-isolation'"
            meta["demo_observer"] = "cargo +nightly miri test"
        rc0, out0 = sh(f"{env_target} {test} --offline {flags} --test seed_demo 2>&1", wt)
        meta["verified"]["demo_passes_on_pristine"] = rc0 == 0
        # patched
        rc, out = sh(f"git apply --check {patch} && git apply {patch}", wt)
        meta["verified"]["patch_applies"] = rc == 0
        rcb, outb = sh(f"CARGO_TARGET_DIR=/tmp/seed-target cargo build --offline 2>&1", wt)
        meta["verified"]["compiles"] = rcb == 0
        rc1, out1 = sh(f"{env_target} {test} --offline {flags} --test seed_demo 2>&1", wt)
        if os.environ.get("SEED_DEMO_MIRI"):
            env_target = "CARGO_TARGET_DIR=/tmp/seed-target"
        meta["verified"]["demo_fails_with_patch"] = rc1 != 0
        os.remove(os.path.join(wt, "tests", "seed_demo.rs"))
        lines, failed = [], []
        rcs, outs = sh(f"{env_target} cargo test --workspace --offline --no-fail-fast 2>&1", wt)
        lines = [l for l in outs.splitlines() if l.startswith("test result")]
        failed = sorted(l.split()[1] for l in outs.splitlines() if l.startswith("test ") and l.rstrip().endswith("FAILED"))
        meta["verified"]["suite_with_patch"] = lines
        meta["verified"]["suite_failed_tests_with_patch"] = failed
        meta["verified"]["suite_same_as_baseline"] = failed == ["rgb_xyb::tests::xyb_to_rgb_correct"] and any(f"{BASE_PASS} passed" in l for l in lines)
    finally:
        sh(f"git -C /repo worktree remove --force {wt}")
    ok = all(meta["verified"][k] for k in ("demo_passes_on_pristine", "patch_applies", "compiles", "demo_fails_with_patch", "suite_same_as_baseline"))
    meta["kept"] = ok
    print(json.dumps(meta["verified"], indent=1))
    if not ok:
        print(f"NOT KEPT: {seed_id}")
        return 1
    d = os.path.join(SEEDED, seed_id)
    os.makedirs(d, exist_ok=True)
    shutil.copy(patch, os.path.join(d, "patch.diff"))
    shutil.copy(demo, os.path.join(d, "demo.rs"))
    notes = os.path.join(src, "notes.md")
    if os.path.exists(notes):
        shutil.copy(notes, os.path.join(d, "author_notes.md"))
    meta["what_i_ran"] = ["scratch worktree of /repo HEAD: cargo test --test seed_demo (pristine: pass; patched: fail)", "cargo build --offline", "cargo test --workspace --offline --no-fail-fast (patched: 39 pass, only xyb_to_rgb_correct fails, doc-test passes)"]
    meta["needs_to_manifest"] = "see author_notes.md"
    json.dump(meta, open(os.path.join(d, "meta.json"), "w"), indent=1)
    print(f"KEPT: {seed_id}")
    return 0


def cmd_run(seed_id, checks):
    d = os.path.join(SEEDED, seed_id)
    meta = json.load(open(os.path.join(d, "meta.json")))
    checks = checks or [meta["breaks_property"]]
    tier = os.environ.get("SEED_TIER", "quick")
    store = os.environ.get("SEED_STORE", "check_results")
    rc, out = sh(f"git -C {REPO} status --porcelain")
    assert out.strip() == "", f"{REPO} is not clean"
    res = meta.setdefault(store, {})
    # evidence files must always describe the unchanged tree: keep the current ones aside
    ev_dir = os.path.join(ROOT, "evidence")
    ev_bak = tempfile.mkdtemp(prefix="evidence-bak-")
    for f in os.listdir(ev_dir):
        shutil.copy(os.path.join(ev_dir, f), ev_bak)
    try:
        rc, out = sh(f"git -C {REPO} apply {os.path.join(d, 'patch.diff')}")
        assert rc == 0, out
        for c in checks:
            t0 = time.time()
            rc, out = sh([os.path.join(ROOT, "check"), c, tier], ROOT)
            v = [l for l in out.splitlines() if l.startswith("VIOLATION")]
            first = next((l.strip() for l in out.splitlines() if l.startswith("  violation")), "")
            res[c] = {"exit": rc, "violations": len(v), "first": first[:300], "wall_s": round(time.time() - t0, 1)}
            print(f"{seed_id} {c}: exit={rc} {first[:160]}")
    finally:
        sh(f"git -C {REPO} checkout -- .")
        for f in os.listdir(ev_bak):
            shutil.copy(os.path.join(ev_bak, f), ev_dir)
        shutil.rmtree(ev_bak)
    if store == "check_results":
        meta["caught_by"] = sorted(c for c, r in res.items() if r["exit"] == 1)
    json.dump(meta, open(os.path.join(d, "meta.json"), "w"), indent=1)
    # restore evidence of the checks we ran to the clean-tree state later (the caller re-runs them)
    return 0


def cmd_matrix():
    rows = []
    for s in sorted(os.listdir(SEEDED)):
        mp = os.path.join(SEEDED, s, "meta.json")
        if not os.path.exists(mp):
            continue
        m = json.load(open(mp))
        rows.append((s, m["breaks_property"], ",".join(m.get("caught_by", [])) or "-", ",".join(c for c, r in m.get("check_results", {}).items() if r["exit"] != 1) or ""))
    for r in rows:
        print("%-14s breaks %-4s caught by %-30s not flagged by %s" % r)


if __name__ == "__main__":
    a = sys.argv[1:]
    if a and a[0] == "import":
        sys.exit(cmd_import(a[1], a[2], a[3], a[4]))
    if a and a[0] == "run":
        sys.exit(cmd_run(a[1], a[2:]))
    if a and a[0] == "matrix":
        sys.exit(cmd_matrix())
    print(__doc__)
