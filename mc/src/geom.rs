//! Frame-geometry space shared by C07, C11 and C12 (engine E2): every frame a caller can build
//! through `Plane::new` / `Plane::from_slice` (+ the public decimation fields), described by a
//! small spec so that every case is replayable.

use serde_json::{json, Value};
use yuvxyb::{ColorPrimaries as CP, Frame, MatrixCoefficients as MC, Pixel, Plane, TransferCharacteristic as TC, YuvConfig, YuvError};

#[derive(Clone, Copy, Debug, PartialEq, Eq)]
pub struct PSpec {
    pub w: usize,
    pub h: usize,
    pub xdec: usize,
    pub ydec: usize,
    pub xpad: usize,
    pub ypad: usize,
    /// built with `Plane::from_slice` (no padding; decimation set through the public cfg field)
    pub slice: bool,
}

#[derive(Clone, Copy, Debug, PartialEq, Eq)]
pub struct FSpec {
    pub p: [PSpec; 3],
    pub wide: bool,
    pub depth: u8,
    pub ss: (u8, u8),
    /// (plane, raw buffer index modulo buffer length, value): one hostile sample anywhere in a buffer
    pub bad: Option<(usize, usize, u16)>,
    pub full: bool,
    pub matrix: MC,
}

impl FSpec {
    pub fn well_formed(w: usize, h: usize, ss: (u8, u8), wide: bool, depth: u8, pad: usize) -> FSpec {
        let c = PSpec { w: w >> ss.0, h: h >> ss.1, xdec: ss.0 as usize, ydec: ss.1 as usize, xpad: pad, ypad: pad, slice: false };
        FSpec {
            p: [PSpec { w, h, xdec: 0, ydec: 0, xpad: pad, ypad: pad, slice: false }, c, c],
            wide,
            depth,
            ss,
            bad: None,
            full: false,
            matrix: MC::BT709,
        }
    }
    pub fn config(&self) -> YuvConfig {
        YuvConfig {
            bit_depth: self.depth,
            subsampling_x: self.ss.0,
            subsampling_y: self.ss.1,
            full_range: self.full,
            matrix_coefficients: self.matrix,
            transfer_characteristics: TC::BT1886,
            color_primaries: CP::BT709,
        }
    }
    pub fn json(&self) -> Value {
        let pj = |p: &PSpec| json!([p.w, p.h, p.xdec, p.ydec, p.xpad, p.ypad, p.slice]);
        json!({
            "planes": [pj(&self.p[0]), pj(&self.p[1]), pj(&self.p[2])],
            "u16": self.wide, "depth": self.depth, "ss": [self.ss.0, self.ss.1],
            "bad": self.bad.map(|b| vec![b.0 as u64, b.1 as u64, b.2 as u64]),
            "full": self.full, "matrix": format!("{:?}", self.matrix),
        })
    }
    pub fn from_json(v: &Value) -> FSpec {
        let pp = |a: &Value| PSpec {
            w: a[0].as_u64().unwrap() as usize,
            h: a[1].as_u64().unwrap() as usize,
            xdec: a[2].as_u64().unwrap() as usize,
            ydec: a[3].as_u64().unwrap() as usize,
            xpad: a[4].as_u64().unwrap() as usize,
            ypad: a[5].as_u64().unwrap() as usize,
            slice: a[6].as_bool().unwrap(),
        };
        FSpec {
            p: [pp(&v["planes"][0]), pp(&v["planes"][1]), pp(&v["planes"][2])],
            wide: v["u16"].as_bool().unwrap(),
            depth: v["depth"].as_u64().unwrap() as u8,
            ss: (v["ss"][0].as_u64().unwrap() as u8, v["ss"][1].as_u64().unwrap() as u8),
            bad: v["bad"].as_array().map(|b| (b[0].as_u64().unwrap() as usize, b[1].as_u64().unwrap() as usize, b[2].as_u64().unwrap() as u16)),
            full: v["full"].as_bool().unwrap(),
            matrix: crate::refmodel::mc_from_name(v["matrix"].as_str().unwrap()),
        }
    }
    pub fn short(&self) -> String {
        let p = |p: &PSpec| format!("{}x{}/dec{}{}/pad{},{}{}", p.w, p.h, p.xdec, p.ydec, p.xpad, p.ypad, if p.slice { "/slice" } else { "" });
        format!(
            "Y {} U {} V {} {} depth {} ss ({},{}){}",
            p(&self.p[0]), p(&self.p[1]), p(&self.p[2]), if self.wide { "u16" } else { "u8" }, self.depth, self.ss.0, self.ss.1,
            self.bad.map(|b| format!(" bad sample plane {} idx {} = {}", b.0, b.1, b.2)).unwrap_or_default()
        )
    }
    pub fn max_code(&self) -> u16 {
        ((1u32 << self.depth) - 1) as u16
    }
    /// A from_slice plane needs w > 0 (stride) — specs that cannot be built are skipped.
    pub fn buildable(&self) -> bool {
        self.p.iter().all(|p| !p.slice || p.w > 0)
    }
}

/// Position-coded, in-range sample value (injective for small planes).
pub fn content(plane: usize, x: usize, y: usize, w: usize, max: u16) -> u16 {
    let v = 1 + plane as u32 * 83 + (y * w + x) as u32 * 7;
    (v % (max as u32 + 1)) as u16
}

pub fn build_plane<T: Pixel>(idx: usize, s: &PSpec, max: u16, bad: Option<(usize, u16)>) -> Plane<T> {
    let mut p: Plane<T> = if s.slice {
        let data: Vec<T> = (0..s.w * s.h).map(|i| T::cast_from(content(idx, i % s.w, i / s.w, s.w, max))).collect();
        let mut p = Plane::from_slice(&data, s.w);
        p.cfg.xdec = s.xdec;
        p.cfg.ydec = s.ydec;
        p
    } else {
        let mut p: Plane<T> = Plane::new(s.w, s.h, s.xdec, s.ydec, s.xpad, s.ypad);
        // poison the padding with the largest in-range code, then write the visible samples
        for v in p.data.iter_mut() {
            *v = T::cast_from(max);
        }
        let (stride, xo, yo) = (p.cfg.stride, p.cfg.xorigin, p.cfg.yorigin);
        for y in 0..s.h {
            for x in 0..s.w {
                p.data[(yo + y) * stride + xo + x] = T::cast_from(content(idx, x, y, s.w, max));
            }
        }
        p
    };
    if let Some((i, v)) = bad {
        let len = p.data.len();
        if len > 0 {
            p.data[i % len] = T::cast_from(v);
        }
    }
    p
}

pub fn build<T: Pixel>(s: &FSpec) -> Frame<T> {
    let max = s.max_code();
    let bad = |i: usize| s.bad.filter(|b| b.0 == i).map(|b| (b.1, b.2));
    Frame { planes: [build_plane(0, &s.p[0], max, bad(0)), build_plane(1, &s.p[1], max, bad(1)), build_plane(2, &s.p[2], max, bad(2))] }
}

/// Is raw buffer index `i` of plane `p` a visible sample?
pub fn raw_index_visible<T: Pixel>(p: &Plane<T>, i: usize) -> bool {
    let c = &p.cfg;
    if c.stride == 0 {
        return false;
    }
    let (y, x) = (i / c.stride, i % c.stride);
    y >= c.yorigin && y < c.yorigin + c.height && x >= c.xorigin && x < c.xorigin + c.width
}

#[derive(Debug, Clone, PartialEq, Eq)]
pub struct Expect {
    pub accept: bool,
    /// on rejection: the error variants that correspond to a condition this frame violates
    pub allowed: Vec<YuvError>,
    pub why: Vec<&'static str>,
}

/// Geometry-only part of the reference predicate (no frame needs to be built): true iff the
/// decimation, divisibility and chroma-size conditions hold.
pub fn geometry_ok(s: &FSpec) -> bool {
    let (ssx, ssy) = (s.ss.0 as usize, s.ss.1 as usize);
    let (w, h) = (s.p[0].w, s.p[0].h);
    s.p[1].xdec == ssx
        && s.p[2].xdec == ssx
        && s.p[1].ydec == ssy
        && s.p[2].ydec == ssy
        && w % (1 << ssx) == 0
        && h % (1 << ssy) == 0
        && (s.p[1].w, s.p[1].h) == (w >> ssx, h >> ssy)
        && (s.p[2].w, s.p[2].h) == (w >> ssx, h >> ssy)
}

/// Reference predicate of C12, transcribed from the property statement.
pub fn expect<T: Pixel>(s: &FSpec, frame: &Frame<T>) -> Expect {
    let (ssx, ssy) = (s.ss.0 as usize, s.ss.1 as usize);
    let (w, h) = (s.p[0].w, s.p[0].h);
    let mut allowed = vec![];
    let mut why = vec![];
    let dec_bad = s.p[1].xdec != ssx || s.p[2].xdec != ssx || s.p[1].ydec != ssy || s.p[2].ydec != ssy;
    if dec_bad {
        allowed.push(YuvError::SubsamplingMismatch);
        why.push("decimation != subsampling");
    }
    if w % (1 << ssx) != 0 {
        allowed.push(YuvError::InvalidLumaWidth);
        why.push("luma width not a multiple");
    }
    if h % (1 << ssy) != 0 {
        allowed.push(YuvError::InvalidLumaHeight);
        why.push("luma height not a multiple");
    }
    let want = (w >> ssx, h >> ssy);
    if (s.p[1].w, s.p[1].h) != want || (s.p[2].w, s.p[2].h) != want {
        // a chroma plane of the wrong size may be reported as any of the three geometry errors
        for e in [YuvError::SubsamplingMismatch, YuvError::InvalidLumaWidth, YuvError::InvalidLumaHeight] {
            if !allowed.contains(&e) {
                allowed.push(e);
            }
        }
        why.push("chroma plane size != (w>>ss_x, h>>ss_y)");
    }
    if s.wide && s.depth < 16 {
        let max = s.max_code();
        let mut oob = false;
        for p in frame.planes.iter() {
            for y in 0..p.cfg.height {
                for x in 0..p.cfg.width {
                    // read through the raw buffer, not through Plane::p (independent of the iterator)
                    let v = u16::cast_from(p.data[(p.cfg.yorigin + y) * p.cfg.stride + p.cfg.xorigin + x]);
                    if v > max {
                        oob = true;
                    }
                }
            }
        }
        if oob {
            allowed.push(YuvError::InvalidData);
            why.push("visible sample > 2^n-1");
        }
    }
    Expect { accept: allowed.is_empty(), allowed, why }
}

use yuvxyb::CastFromPrimitive;

// ------------------------------------------------------------------------------------------------
// enumerators

/// Small box: full product luma (w,h) x common chroma (cw,ch) in 0..=w+1 x 0..=h+1 x common chroma
/// decimation 0..=2^2 x config subsampling 0..=2^2 x sample type x padding {0,1,17}.
pub fn small_box(max_dim: usize) -> Vec<FSpec> {
    let mut v = vec![];
    for w in 1..=max_dim {
        for h in 1..=max_dim {
            for cw in 0..=w + 1 {
                for ch in 0..=h + 1 {
                    for xdec in 0..=2usize {
                        for ydec in 0..=2usize {
                            for ssx in 0..=2u8 {
                                for ssy in 0..=2u8 {
                                    for wide in [false, true] {
                                        for pad in [0usize, 1, 17] {
                                            let c = PSpec { w: cw, h: ch, xdec, ydec, xpad: pad, ypad: pad, slice: false };
                                            v.push(FSpec {
                                                p: [PSpec { w, h, xdec: 0, ydec: 0, xpad: pad, ypad: pad, slice: false }, c, c],
                                                wide,
                                                depth: if wide { 10 } else { 8 },
                                                ss: (ssx, ssy),
                                                bad: None,
                                                full: false,
                                                matrix: MC::BT709,
                                            });
                                        }
                                    }
                                }
                            }
                        }
                    }
                }
            }
        }
    }
    v
}

/// One deviation from a spec: each variant changes exactly one independent attribute.
#[derive(Clone, Copy, Debug)]
pub enum Dev {
    ChromaW(usize, usize),
    ChromaH(usize, usize),
    XDec(usize, usize),
    YDec(usize, usize),
    SsX(u8),
    SsY(u8),
    LumaW(usize),
    LumaH(usize),
    Pad(usize, usize, usize),
    Slice(usize),
    Bad(usize, usize, u16),
}

pub fn apply(s: &mut FSpec, d: Dev) {
    match d {
        Dev::ChromaW(p, w) => s.p[p].w = w,
        Dev::ChromaH(p, h) => s.p[p].h = h,
        Dev::XDec(p, v) => s.p[p].xdec = v,
        Dev::YDec(p, v) => s.p[p].ydec = v,
        Dev::SsX(v) => s.ss.0 = v,
        Dev::SsY(v) => s.ss.1 = v,
        Dev::LumaW(w) => s.p[0].w = w,
        Dev::LumaH(h) => s.p[0].h = h,
        Dev::Pad(p, x, y) => {
            s.p[p].xpad = x;
            s.p[p].ypad = y;
        }
        Dev::Slice(p) => {
            s.p[p].slice = true;
            s.p[p].xpad = 0;
            s.p[p].ypad = 0;
        }
        Dev::Bad(p, i, v) => s.bad = Some((p, i, v)),
    }
}

/// All single deviations applicable to a well-formed base.
pub fn deviations(base: &FSpec) -> Vec<Dev> {
    let mut v = vec![];
    for p in 1..3 {
        let (cw, ch) = (base.p[p].w, base.p[p].h);
        for w in [cw.wrapping_sub(1), cw + 1, 0, cw * 2, base.p[0].w] {
            if w != cw && w != usize::MAX {
                v.push(Dev::ChromaW(p, w));
            }
        }
        for h in [ch.wrapping_sub(1), ch + 1, 0, ch * 2, base.p[0].h] {
            if h != ch && h != usize::MAX {
                v.push(Dev::ChromaH(p, h));
            }
        }
        for d in 0..=2usize {
            if d != base.p[p].xdec {
                v.push(Dev::XDec(p, d));
            }
            if d != base.p[p].ydec {
                v.push(Dev::YDec(p, d));
            }
        }
    }
    for d in 0..=2u8 {
        if d != base.ss.0 {
            v.push(Dev::SsX(d));
        }
        if d != base.ss.1 {
            v.push(Dev::SsY(d));
        }
    }
    v.push(Dev::LumaW(base.p[0].w + 1));
    v.push(Dev::LumaH(base.p[0].h + 1));
    if base.p[0].w > 1 {
        v.push(Dev::LumaW(base.p[0].w - 1));
    }
    if base.p[0].h > 1 {
        v.push(Dev::LumaH(base.p[0].h - 1));
    }
    for p in 0..3 {
        for (x, y) in [(5usize, 0usize), (0, 3), (17, 17)] {
            if (x, y) != (base.p[p].xpad, base.p[p].ypad) {
                v.push(Dev::Pad(p, x, y));
            }
        }
        v.push(Dev::Slice(p));
        if base.wide && base.depth < 16 {
            // first raw element (padding when padded), a middle element, the last element
            for i in [0usize, 1 << 30, usize::MAX - 1] {
                v.push(Dev::Bad(p, i, base.max_code() + 1));
            }
        }
    }
    v
}

pub fn dev_sizes(tier_thorough: bool) -> Vec<usize> {
    if tier_thorough {
        let mut v: Vec<usize> = (1..=12).collect();
        v.extend([63, 64, 65]);
        v
    } else {
        vec![1, 2, 3, 4, 5, 6, 8, 12]
    }
}

/// Well-formed bases of the big box.
pub fn bases(thorough: bool) -> Vec<FSpec> {
    let sizes = dev_sizes(thorough);
    let mut v = vec![];
    for &w in &sizes {
        for &h in &sizes {
            for ssx in 0..=2u8 {
                for ssy in 0..=2u8 {
                    if w % (1 << ssx) != 0 || h % (1 << ssy) != 0 {
                        continue;
                    }
                    for (wide, depth) in [(false, 8u8), (true, 10), (true, 16)] {
                        for pad in [0usize, 1, 17] {
                            if (w > 12 || h > 12) && pad == 1 {
                                continue;
                            }
                            v.push(FSpec::well_formed(w, h, (ssx, ssy), wide, depth, pad));
                        }
                    }
                }
            }
        }
    }
    v
}
