//! C12 — constructors accept exactly the well-formed images and keep them verbatim.

use crate::explore::*;
use crate::geom::*;
use serde_json::{json, Value};
use yuvxyb::{ColorPrimaries as CP, CreationError, Hsl, LinearRgb, Pixel, Rgb, TransferCharacteristic as TC, Xyb, Yuv};

fn check_spec_t<T: Pixel>(acc: &mut Acc, idx: u64, s: &FSpec, stratum: &str) {
    let case = || json!({"kind":"c12","spec":s.json()});
    acc.states += 1;
    acc.transitions += 1;
    let frame = build::<T>(s);
    let exp = expect(s, &frame);
    let keep = frame.clone();
    let cfg = s.config();
    let res = guarded(|| Yuv::new(frame, cfg));
    match res {
        Err(p) => {
            acc.violation(idx, format!("constructor-panic {}", panic_site(&p)), format!("{}: Yuv::new panicked: {p}", s.short()), case());
            acc.bucket("panicked", 1);
        }
        Ok(Ok(yuv)) => {
            if !exp.accept {
                acc.violation(
                    idx,
                    format!("malformed-frame-accepted reason={}", exp.why.join("+").replace(' ', "_")),
                    format!("{}: accepted although {}", s.short(), exp.why.join(", ")),
                    case(),
                );
                acc.bucket("wrongly accepted", 1);
                return;
            }
            // verbatim
            let mut ok = yuv.width() == s.p[0].w && yuv.height() == s.p[0].h && yuv.config() == cfg;
            for (a, b) in yuv.data().iter().zip(keep.planes.iter()) {
                ok &= a.cfg == b.cfg;
                if !ok {
                    break;
                }
                for y in 0..b.cfg.height {
                    for x in 0..b.cfg.width {
                        ok &= a.p(x, y) == b.p(x, y);
                    }
                }
            }
            if !ok {
                acc.violation(idx, "accepted-image-not-verbatim".into(), format!("{}: width/height/config/samples differ from what was given", s.short()), case());
                return;
            }
            acc.bucket(&format!("{stratum}: accepted, verbatim"), 1);
        }
        Ok(Err(e)) => {
            if exp.accept {
                acc.violation(idx, format!("well-formed-frame-rejected error={e:?}"), format!("{}: rejected with {e:?}", s.short()), case());
                acc.bucket("wrongly rejected", 1);
                return;
            }
            if !exp.allowed.contains(&e) {
                acc.violation(
                    idx,
                    format!("wrong-error-variant got={e:?}"),
                    format!("{}: reported {e:?} but the violated conditions are: {}", s.short(), exp.why.join(", ")),
                    case(),
                );
                return;
            }
            acc.bucket(&format!("rejected: {e:?}"), 1);
        }
    }
}

pub fn check_spec(acc: &mut Acc, idx: u64, s: &FSpec, stratum: &str) {
    if !s.buildable() {
        return;
    }
    if s.wide {
        check_spec_t::<u16>(acc, idx, s, stratum)
    } else {
        check_spec_t::<u8>(acc, idx, s, stratum)
    }
}

fn float_ctor(acc: &mut Acc, idx: u64, len: usize, w: usize, h: usize) {
    let data: Vec<[f32; 3]> = (0..len).map(|i| [i as f32, 0.5 - i as f32, f32::from_bits(0x7FC0_0000 + i as u32)]).collect();
    let want_ok = len == w * h;
    let bits = |d: &[[f32; 3]]| d.iter().flat_map(|p| p.map(|c| c.to_bits())).collect::<Vec<_>>();
    let want_bits = bits(&data);
    let report = |acc: &mut Acc, name: &str, r: Result<Result<(Vec<u32>, usize, usize), CreationError>, String>| {
        let case = json!({"kind":"c12float","len":len,"w":w,"h":h});
        acc.states += 1;
        acc.transitions += 1;
        match r {
            Err(p) => acc.violation(idx, format!("float-constructor-panic type={name}"), p, case),
            Ok(Ok((b, gw, gh))) => {
                if !want_ok {
                    acc.violation(idx, format!("length-mismatch-accepted type={name}"), format!("{name}::new(len {len}, {w}, {h}) accepted"), case);
                } else if b != want_bits || gw != w || gh != h {
                    acc.violation(idx, format!("float-image-not-verbatim type={name}"), format!("{name}::new(len {len}, {w}, {h}) altered data or dims"), case);
                } else {
                    acc.bucket("float constructor: accepted, verbatim", 1);
                }
            }
            Ok(Err(CreationError::ResolutionMismatch)) => {
                if want_ok {
                    acc.violation(idx, format!("matching-length-rejected type={name}"), format!("{name}::new(len {len}, {w}, {h}) rejected"), case);
                } else {
                    acc.bucket("float constructor: ResolutionMismatch", 1);
                }
            }
        }
    };
    // every accessor must expose the same verbatim data: data(), data_mut(), into_data()
    macro_rules! all_views {
        ($img:expr) => {{
            let mut i = $img;
            let a = bits(i.data());
            let b = bits(&*i.data_mut());
            let (gw, gh) = (i.width(), i.height());
            // a write through data_mut() must be visible through data() and into_data(), and only there
            let mut ok = a == b;
            if !a.is_empty() {
                let last = a.len() / 3 - 1;
                let old = i.data()[last];
                i.data_mut()[last] = [1.25, -2.5, 7.0];
                ok &= i.data()[last] == [1.25, -2.5, 7.0];
                i.data_mut()[last] = old;
            }
            let c = bits(&i.into_data());
            (if ok && a == c { a } else { vec![0xBAD] }, gw, gh)
        }};
    }
    // the buffer is its LENGTH: the same data in vectors whose capacity differs from their length
    // (grown by push, or reserved for a full w*h image and left short) must get the same verdicts
    let over = || {
        let mut v = Vec::with_capacity(len + 5);
        v.extend_from_slice(&data);
        v
    };
    let reserved = || {
        let mut v = Vec::with_capacity((w * h).max(len));
        v.extend_from_slice(&data);
        v
    };
    for (which, mk) in [("capacity len+5", &over as &dyn Fn() -> Vec<[f32; 3]>), ("capacity max(w*h, len)", &reserved)] {
        let _ = which;
        report(acc, "LinearRgb", guarded(|| LinearRgb::new(mk(), w, h).map(|i| all_views!(i))));
        report(acc, "Xyb", guarded(|| Xyb::new(mk(), w, h).map(|i| all_views!(i))));
        report(acc, "Hsl", guarded(|| Hsl::new(mk(), w, h).map(|i| all_views!(i))));
        report(acc, "Rgb", guarded(|| Rgb::new(mk(), w, h, TC::BT470M, CP::Film).map(|i| if i.transfer() == TC::BT470M && i.primaries() == CP::Film { all_views!(i) } else { (vec![0xBAD], 0, 0) })));
    }
    report(acc, "LinearRgb", guarded(|| LinearRgb::new(data.clone(), w, h).map(|i| all_views!(i))));
    report(acc, "Xyb", guarded(|| Xyb::new(data.clone(), w, h).map(|i| all_views!(i))));
    report(acc, "Hsl", guarded(|| Hsl::new(data.clone(), w, h).map(|i| all_views!(i))));
    report(acc, "Rgb", guarded(|| Rgb::new(data.clone(), w, h, TC::BT470M, CP::Film).map(|i| if i.transfer() == TC::BT470M && i.primaries() == CP::Film { all_views!(i) } else { (vec![0xBAD], 0, 0) })));
}

fn rgb_labels(acc: &mut Acc, idx: u64, len: usize, w: usize, h: usize, t: TC, p: CP) {
    acc.states += 1;
    acc.transitions += 1;
    let case = || json!({"kind":"c12labels","len":len,"w":w,"h":h,"transfer":format!("{t:?}"),"primaries":format!("{p:?}")});
    let r = guarded(|| Rgb::new(vec![[0.25; 3]; len], w, h, t, p));
    let ok = matches!(&r, Ok(Ok(i)) if i.data().len() == len && i.width() == w && i.height() == h);
    let rej = matches!(&r, Ok(Err(CreationError::ResolutionMismatch)));
    if (len == w * h && !ok) || (len != w * h && !rej) {
        acc.violation(idx, "rgb-constructor-contract".into(), format!("Rgb::new(len {len}, {w}, {h}, {t:?}, {p:?}) -> {:?}", r.map(|x| x.map(|_| ()))), case());
        return;
    }
    if let Ok(Ok(i)) = &r {
        let t_ok = if t == TC::Unspecified { i.transfer() != TC::Unspecified } else { i.transfer() == t };
        let p_ok = if p == CP::Unspecified { i.primaries() != CP::Unspecified } else { i.primaries() == p };
        if !t_ok || !p_ok {
            acc.violation(idx, "rgb-labels-not-kept".into(), format!("Rgb::new(.., {t:?}, {p:?}) exposes transfer {:?}, primaries {:?}", i.transfer(), i.primaries()), case());
            return;
        }
    }
    acc.bucket("Rgb::new over all label pairs: contract holds, labels kept", 1);
}

fn yuv_labels<T: Pixel>(acc: &mut Acc, idx: u64, depth: u8, m: yuvxyb::MatrixCoefficients, t: TC, p: CP) {
    use yuvxyb::MatrixCoefficients as MC;
    acc.states += 1;
    acc.transitions += 1;
    let cfg = crate::img::cfg_full(depth, false, (0, 0), m, t, p);
    let case = || json!({"kind":"c12cfg","depth":depth,"u16":std::mem::size_of::<T>() == 2,"matrix":format!("{m:?}"),"transfer":format!("{t:?}"),"primaries":format!("{p:?}")});
    let r = guarded(|| {
        let f = yuvxyb::Frame { planes: [crate::img::plane_new::<T>(2, 2, 0, 0, 0, 0, |x, y| (16 + x + 2 * y) as u16, None), crate::img::plane_new::<T>(2, 2, 0, 0, 0, 0, |x, y| (100 + x + 2 * y) as u16, None), crate::img::plane_new::<T>(2, 2, 0, 0, 0, 0, |x, y| (200 + x + 2 * y) as u16, None)] };
        Yuv::<T>::new(f, cfg).map(|y| (y.config(), y.width(), y.height(), crate::img::plane_samples(&y.data()[0]), crate::img::plane_samples(&y.data()[1]), crate::img::plane_samples(&y.data()[2])))
    });
    match r {
        Ok(Ok((c, w, h, py, pu, pv))) => {
            let m_ok = if m == MC::Unspecified { c.matrix_coefficients != MC::Unspecified } else { c.matrix_coefficients == m };
            let t_ok = if t == TC::Unspecified { c.transfer_characteristics != TC::Unspecified } else { c.transfer_characteristics == t };
            let p_ok = if p == CP::Unspecified { c.color_primaries != CP::Unspecified } else { c.color_primaries == p };
            let rest = c.bit_depth == depth && c.subsampling_x == 0 && c.subsampling_y == 0 && !c.full_range && (w, h) == (2, 2) && py == [16, 17, 18, 19] && pu == [100, 101, 102, 103] && pv == [200, 201, 202, 203];
            if !(m_ok && t_ok && p_ok && rest) {
                acc.violation(idx, "yuv-config-not-kept".into(), format!("Yuv::new(2x2, {cfg:?}) exposes {c:?}, {w}x{h}, planes {py:?} {pu:?} {pv:?}"), case());
            } else {
                acc.bucket("Yuv::new over all metadata triples: accepted, config kept", 1);
            }
        }
        other => acc.violation(idx, "well-formed-frame-rejected-or-panic".into(), format!("Yuv::new(2x2, {cfg:?}) -> {:?}", other.map(|r| r.map(|_| ()))), case()),
    }
}

/// `clone()` and `clone_from()` produce an image that exposes exactly what the source exposes,
/// whatever the destination held before (other data, other labels, the same pixel count in
/// another shape, another pixel count), and converts exactly like it.
fn check_copies(acc: &mut Acc, idx: u64) {
    let bits = |d: &[[f32; 3]]| d.iter().flat_map(|p| p.map(|c| c.to_bits())).collect::<Vec<_>>();
    let px = |n: usize, k: f32| -> Vec<[f32; 3]> { (0..n).map(|i| [0.05 + 0.03 * i as f32 + k, 0.9 - 0.02 * i as f32, 0.5 + k]).collect() };
    // (source shape, destination shape): same shape, transposed, smaller, larger
    let shapes: [((usize, usize), (usize, usize)); 5] = [((6, 4), (6, 4)), ((6, 4), (4, 6)), ((6, 4), (2, 3)), ((2, 3), (6, 4)), ((1, 24), (24, 1))];
    let labels = [(TC::BT470BG, CP::BT2020), (TC::SRGB, CP::BT709), (TC::PerceptualQuantizer, CP::Film)];
    macro_rules! float_type {
        ($name:expr, $mk:expr, $view:expr, $conv:expr) => {{
            for ((sw, sh), (dw, dh)) in shapes {
                for li in 0..labels.len() {
                    let src = $mk(px(sw * sh, 0.0), sw, sh, labels[li]);
                    let case = || json!({"kind":"c12copy","type":$name});
                    acc.states += 1;
                    acc.transitions += 2;
                    let r = guarded(|| {
                        let mut dst = $mk(px(dw * dh, 0.25), dw, dh, labels[(li + 1) % labels.len()]);
                        dst.clone_from(&src);
                        let c = src.clone();
                        ($view(&dst) == $view(&src), $view(&c) == $view(&src), $conv(dst) == $conv(src.clone()), $conv(c) == $conv(src.clone()))
                    });
                    match r {
                        Ok((true, true, true, true)) => acc.bucket("clone / clone_from: copy exposes and converts like its source", 1),
                        Ok(f) => {
                            acc.violation(idx, format!("copy-differs-from-source type={}", $name), format!("{}: source {sw}x{sh} labels {:?} copied into a {dw}x{dh} image labelled {:?}: clone_from view equal={}, clone view equal={}, clone_from converts alike={}, clone converts alike={}", $name, labels[li], labels[(li + 1) % labels.len()], f.0, f.1, f.2, f.3), case());
                            return;
                        }
                        Err(p) => {
                            acc.violation(idx, format!("copy-panics type={} {}", $name, panic_site(&p)), p, case());
                            return;
                        }
                    }
                }
            }
        }};
    }
    float_type!(
        "Rgb",
        |d: Vec<[f32; 3]>, w, h, l: (TC, CP)| Rgb::new(d, w, h, l.0, l.1).unwrap(),
        |i: &Rgb| (bits(i.data()), i.width(), i.height(), i.transfer(), i.primaries()),
        |i: Rgb| LinearRgb::try_from(i).map(|o| (bits(o.data()), o.width(), o.height())).map_err(|e| format!("{e:?}"))
    );
    float_type!(
        "LinearRgb",
        |d: Vec<[f32; 3]>, w, h, _l: (TC, CP)| LinearRgb::new(d, w, h).unwrap(),
        |i: &LinearRgb| (bits(i.data()), i.width(), i.height()),
        |i: LinearRgb| { let o = Hsl::from(i); (bits(o.data()), o.width(), o.height()) }
    );
    float_type!(
        "Xyb",
        |d: Vec<[f32; 3]>, w, h, _l: (TC, CP)| Xyb::new(d, w, h).unwrap(),
        |i: &Xyb| (bits(i.data()), i.width(), i.height()),
        |i: Xyb| { let o = LinearRgb::from(i); (bits(o.data()), o.width(), o.height()) }
    );
    float_type!(
        "Hsl",
        |d: Vec<[f32; 3]>, w, h, _l: (TC, CP)| Hsl::new(d, w, h).unwrap(),
        |i: &Hsl| (bits(i.data()), i.width(), i.height()),
        |i: Hsl| { let o = LinearRgb::from(i); (bits(o.data()), o.width(), o.height()) }
    );
    // Yuv: other samples, other config, other shape
    fn yuv_of<T: Pixel>(w: usize, h: usize, ss: (u8, u8), k: u16, m: yuvxyb::MatrixCoefficients) -> Yuv<T> {
        let (sx, sy) = (ss.0 as usize, ss.1 as usize);
        let f = yuvxyb::Frame { planes: [
            crate::img::plane_new::<T>(w, h, 0, 0, 1, 0, |x, y| 16 + k + (x + 3 * y) as u16, None),
            crate::img::plane_new::<T>(w >> sx, h >> sy, sx, sy, 0, 1, |x, y| 100 + k + (x + y) as u16, None),
            crate::img::plane_new::<T>(w >> sx, h >> sy, sx, sy, 0, 0, |x, y| 140 + k + (2 * x + y) as u16, None),
        ] };
        Yuv::new(f, crate::img::cfg_full(8, k % 2 == 1, ss, m, TC::BT1886, CP::BT709)).unwrap()
    }
    fn yuv_view<T: Pixel>(y: &Yuv<T>) -> (Vec<Vec<u16>>, usize, usize, yuvxyb::YuvConfig) {
        (y.data().iter().map(crate::img::plane_samples).collect(), y.width(), y.height(), y.config())
    }
    fn yuv_copies<T: Pixel>(acc: &mut Acc, idx: u64, name: &str) {
        use yuvxyb::MatrixCoefficients as MC;
        for ((sw, sh, sss), (dw, dh, dss)) in [((4usize, 4usize, (1u8, 1u8)), (4usize, 4usize, (1u8, 1u8))), ((4, 4, (1, 1)), (4, 4, (0, 0))), ((4, 2, (1, 0)), (2, 4, (0, 1))), ((2, 2, (0, 0)), (8, 4, (1, 1)))] {
            let case = || json!({"kind":"c12copy","type":name});
            acc.states += 1;
            acc.transitions += 2;
            let r = guarded(|| {
                let src = yuv_of::<T>(sw, sh, sss, 0, MC::BT709);
                let mut dst = yuv_of::<T>(dw, dh, dss, 7, MC::ST170M);
                dst.clone_from(&src);
                let c = src.clone();
                let conv = |y: &Yuv<T>| Rgb::try_from(y).map(|o| o.data().iter().flat_map(|p| p.map(|c| c.to_bits())).collect::<Vec<_>>()).map_err(|e| format!("{e:?}"));
                (yuv_view(&dst) == yuv_view(&src), yuv_view(&c) == yuv_view(&src), conv(&dst) == conv(&src), conv(&c) == conv(&src))
            });
            match r {
                Ok((true, true, true, true)) => acc.bucket("clone / clone_from: copy exposes and converts like its source", 1),
                Ok(f) => {
                    acc.violation(idx, format!("copy-differs-from-source type={name}"), format!("{name}: {sw}x{sh} ss {sss:?} copied into {dw}x{dh} ss {dss:?}: clone_from view equal={}, clone view equal={}, converts alike={}/{}", f.0, f.1, f.2, f.3), case());
                    return;
                }
                Err(p) => {
                    acc.violation(idx, format!("copy-panics type={name} {}", panic_site(&p)), p, case());
                    return;
                }
            }
        }
    }
    yuv_copies::<u8>(acc, idx, "Yuv<u8>");
    yuv_copies::<u16>(acc, idx, "Yuv<u16>");
}

pub fn run(tier: Tier) -> Report {
    let mut rep = Report::new("C12");
    // (1) small box, full product
    let sb = small_box(tier.pick(5, 7));
    let acc = par_chunks(sb.len() as u64, 256, |acc, lo, hi| {
        for i in lo..hi {
            check_spec(acc, i, &sb[i as usize], "small box");
        }
        if lo == 0 {
            acc.sample(json!({"spec": sb[(hi - 1) as usize].json(), "stratum": "small box (full product)"}));
        }
    });
    rep.acc.merge(acc);
    let mut base_idx = sb.len() as u64;
    // (2) big box: 0, 1 and 2 deviations from every well-formed base
    let bs = bases(tier == Tier::Thorough);
    let acc = par_chunks(bs.len() as u64, 4, |acc, lo, hi| {
        for i in lo..hi {
            let b = &bs[i as usize];
            let idx = base_idx + i * 10_000;
            check_spec(acc, idx, b, "0 deviations");
            let devs = deviations(b);
            for (j, d) in devs.iter().enumerate() {
                let mut s = *b;
                apply(&mut s, *d);
                check_spec(acc, idx + 1 + j as u64, &s, "1 deviation");
                // two deviations: only for the geometry sizes of the property's main box
                if b.p[0].w <= 12 && b.p[0].h <= 12 {
                    for d2 in devs.iter().skip(j + 1) {
                        let mut s2 = s;
                        apply(&mut s2, *d2);
                        check_spec(acc, idx + 5000, &s2, "2 deviations");
                    }
                }
            }
        }
    });
    rep.acc.merge(acc);
    base_idx += bs.len() as u64 * 10_000;
    // (3) one out-of-range sample at every raw position of every plane, every depth below 16
    let mut sweeps = vec![];
    for (w, h, ss, pad) in [(2usize, 2usize, (0u8, 0u8), 0usize), (4, 2, (1, 0), 1), (4, 4, (1, 1), 0), (2, 4, (0, 1), 1), (4, 4, (2, 2), 17)] {
        for depth in 8..=15u8 {
            if pad == 17 && depth != 10 && tier == Tier::Quick {
                continue;
            }
            sweeps.push(FSpec::well_formed(w, h, ss, true, depth, pad));
        }
    }
    let acc = par_chunks(sweeps.len() as u64, 1, |acc, lo, _| {
        let b = &sweeps[lo as usize];
        let frame = build::<u16>(b);
        for p in 0..3 {
            let len = frame.planes[p].data.len();
            for i in 0..len {
                let vis = raw_index_visible(&frame.planes[p], i);
                // 2^n, 2^n + 1, every single higher bit alone (2^k, k > n: a mask test that looks at one
                // bit only sees one of them), 2^k + 2^(n-1), and 65535
                let n = b.depth as u32;
                let mut vals: Vec<u16> = vec![b.max_code() + 1, b.max_code() + 2, 65535];
                for k in n + 1..16 {
                    vals.push(1u16 << k);
                    vals.push((1u16 << k) | (1u16 << (n - 1)));
                }
                for val in vals {
                    let mut s = *b;
                    s.bad = Some((p, i, val));
                    check_spec(acc, base_idx + lo, &s, if vis { "bad visible sample" } else { "bad padding sample" });
                }
            }
        }
    });
    rep.acc.merge(acc);
    base_idx += sweeps.len() as u64;
    // (4) float constructors: (len, w, h) in 0..=40 cubed
    let n = 41u64;
    let acc = par_chunks(n * n * n, 1024, |acc, lo, hi| {
        for i in lo..hi {
            float_ctor(acc, base_idx + i, (i / (n * n)) as usize, ((i / n) % n) as usize, (i % n) as usize);
        }
    });
    rep.acc.merge(acc);
    // every label pair / metadata triple: an accepted image exposes the metadata it was given
    // (an Unspecified field may come back resolved, a specified one must come back as given)
    {
        let mut acc = Acc::default();
        for &t in crate::refmodel::ALL_TRANSFERS.iter() {
            for &p in crate::refmodel::ALL_PRIMARIES.iter() {
                for (len, w, h) in [(6usize, 3usize, 2usize), (5, 3, 2), (0, 0, 7)] {
                    rgb_labels(&mut acc, base_idx, len, w, h, t, p);
                }
                for &m in crate::refmodel::ALL_MATRICES.iter() {
                    yuv_labels::<u8>(&mut acc, base_idx, 8, m, t, p);
                    yuv_labels::<u16>(&mut acc, base_idx, 10, m, t, p);
                }
            }
        }
        rep.acc.merge(acc);
    }
    {
        let mut acc = Acc::default();
        check_copies(&mut acc, base_idx);
        rep.acc.merge(acc);
    }
    rep.bound = format!(
        "(1) full product of luma w,h in 1..={} x common chroma size 0..=w+1 x 0..=h+1 x chroma decimation 0..=2^2 x config subsampling 0..=2^2 x u8/u16 x padding {{0,1,17}} = {} frames; (2) every well-formed base with luma sizes in {:?}, valid subsampling, (u8,8)/(u16,10)/(u16,16), padding {{0,1,17}} ({} bases) with every single deviation and (sizes <= 12) every pair of deviations (chroma size, decimation, config subsampling, luma size, per-plane padding, from_slice construction, one out-of-range sample); (3) one out-of-range sample (2^n, 2^n+1, every 2^k and 2^k+2^(n-1) for k > n, 65535) at EVERY raw buffer position (visible and padding) of every plane for {} geometries x depths 8..15; (4) all (len,w,h) in 0..=40 cubed for the four float constructors (each with an exact-capacity, an over-allocated and a w*h-reserved buffer), all 19x14 label pairs for Rgb::new and all 15x19x14 metadata triples for Yuv::new (u8/8 bit, u16/10 bit): specified metadata is exposed as given; clone() and clone_from() of all five image types into destinations of the same, transposed, smaller and larger shape with other labels / configs",
        tier.pick(5, 7), sb.len(), dev_sizes(tier == Tier::Thorough), bs.len(), sweeps.len()
    );
    rep.rule = "Yuv::new verdict vs the reference predicate transcribed from the statement (accept <=> predicate; on reject the variant must name a violated condition; padding samples never matter; accepted images are verbatim); float constructors: Ok <=> len == w*h else ResolutionMismatch, data verbatim".into();
    rep.assumptions = vec!["planes are built through Plane::new / Plane::from_slice (+ public decimation fields), not by corrupting PlaneConfig's stride/size fields".into()];
    rep.guard_bucket("small box: accepted, verbatim");
    rep.guard_bucket("1 deviation: accepted, verbatim");
    rep.guard_bucket("2 deviations: accepted, verbatim");
    rep.guard_bucket("bad padding sample: accepted, verbatim");
    rep.guard_bucket("rejected: SubsamplingMismatch");
    rep.guard_bucket("rejected: InvalidLumaWidth");
    rep.guard_bucket("rejected: InvalidLumaHeight");
    rep.guard_bucket("rejected: InvalidData");
    rep.guard_bucket("float constructor: accepted, verbatim");
    rep.guard_bucket("float constructor: ResolutionMismatch");
    rep.guard_bucket("Rgb::new over all label pairs: contract holds, labels kept");
    rep.guard_bucket("Yuv::new over all metadata triples: accepted, config kept");
    rep.guard_bucket("clone / clone_from: copy exposes and converts like its source");
    rep
}

pub fn replay(case: &Value) -> (bool, String) {
    let mut acc = Acc::default();
    if case["kind"] == "c12" {
        check_spec(&mut acc, 0, &FSpec::from_json(&case["spec"]), "replay");
    } else if case["kind"] == "c12copy" {
        check_copies(&mut acc, 0);
    } else if case["kind"] == "c12labels" {
        let g = |k: &str| case[k].as_u64().unwrap() as usize;
        rgb_labels(&mut acc, 0, g("len"), g("w"), g("h"), crate::refmodel::tc_from_name(case["transfer"].as_str().unwrap()), crate::refmodel::cp_from_name(case["primaries"].as_str().unwrap()));
    } else if case["kind"] == "c12cfg" {
        let (m, t, p) = (crate::refmodel::mc_from_name(case["matrix"].as_str().unwrap()), crate::refmodel::tc_from_name(case["transfer"].as_str().unwrap()), crate::refmodel::cp_from_name(case["primaries"].as_str().unwrap()));
        if case["u16"] == true {
            yuv_labels::<u16>(&mut acc, 0, case["depth"].as_u64().unwrap() as u8, m, t, p)
        } else {
            yuv_labels::<u8>(&mut acc, 0, case["depth"].as_u64().unwrap() as u8, m, t, p)
        }
    } else {
        float_ctor(&mut acc, 0, case["len"].as_u64().unwrap() as usize, case["w"].as_u64().unwrap() as usize, case["h"].as_u64().unwrap() as usize);
    }
    match acc.viols.values().next() {
        Some(v) => (true, format!("{} :: {}", v.key, v.detail)),
        None => (false, "ok".into()),
    }
}
