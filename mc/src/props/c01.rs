//! C01 — YUV->RGB decoding equals the H.273 definition for every code triple.

use crate::explore::*;
use crate::img::*;
use crate::refmodel::*;
use serde_json::{json, Value};
use yuvxyb::{MatrixCoefficients as MC, Pixel, Rgb};

const TOL: f64 = 3e-6;

pub struct Cfg {
    pub m: MC,
    pub full: bool,
    pub n: u8,
    pub wide: bool,
}

impl Cfg {
    pub fn json(&self) -> Value {
        json!({"matrix": mc_name(self.m), "full": self.full, "depth": self.n, "u16": self.wide})
    }
    pub fn from_json(v: &Value) -> Cfg {
        Cfg {
            m: mc_from_name(v["matrix"].as_str().unwrap()),
            full: v["full"].as_bool().unwrap(),
            n: v["depth"].as_u64().unwrap() as u8,
            wide: v["u16"].as_bool().unwrap(),
        }
    }
    pub fn key(&self) -> String {
        format!("matrix={} range={} depth={}", mc_name(self.m), range_name(self.full), self.n)
    }
}

/// Domains of one config (matrix tier adds the complete 8-bit cube for two representative configs).
pub fn domains_for(c: &Cfg, tier: Tier) -> Vec<Triples> {
    let mut d = domains(c.n as u32, tier);
    if light() && c.n == 8 && !c.wide && ((c.m == MC::BT709 && !c.full) || (c.m == MC::YCgCo && c.full)) {
        d.push(Triples::Full(8));
    }
    d
}

pub fn configs() -> Vec<Cfg> {
    let mut v = vec![];
    for &(n, wide) in DEPTH_STORAGE.iter() {
        for &m in STD_MATRICES.iter() {
            for full in [false, true] {
                v.push(Cfg { m, full, n, wide });
            }
        }
    }
    v
}

pub fn domains(n: u32, tier: Tier) -> Vec<Triples> {
    if light() {
        // matrix tier: cross + small lattice everywhere; the complete 8-bit cube is added per config below
        let k = 1u32 << (n - 8);
        let b5: Vec<u16> = [0, 16 * k, 128 * k, 240 * k, (1u32 << n) - 1].iter().map(|&c| c as u16).collect();
        return vec![Triples::Cross(n, b5), Triples::Product(lattice_codes(n, 17))];
    }
    let full_max = tier.pick(8, 10);
    if n <= full_max {
        vec![Triples::Full(n)]
    } else {
        vec![
            Triples::Cross(n, boundary_codes(n)),
            Triples::Product(lattice_codes(n, tier.pick(33, 65))),
        ]
    }
}

fn decode<T: Pixel>(c: &Cfg, y: &[u16], u: &[u16], v: &[u16]) -> Result<Rgb, String> {
    let yuv = yuv444_row::<T>(y, u, v, cfg444(c.n, c.full, c.m));
    guarded(|| Rgb::try_from(&yuv)).and_then(|r| r.map_err(|e| format!("conversion error {e:?}")))
}

pub fn decode_dyn(c: &Cfg, y: &[u16], u: &[u16], v: &[u16]) -> Result<Rgb, String> {
    if c.wide {
        decode::<u16>(c, y, u, v)
    } else {
        decode::<u8>(c, y, u, v)
    }
}

pub struct Luts {
    pub luma: Vec<f64>,
    pub chroma: Vec<f64>,
}
pub fn luts(n: u32, full: bool) -> Luts {
    Luts {
        luma: (0..1u32 << n).map(|c| norm_luma(c, n, full)).collect(),
        chroma: (0..1u32 << n).map(|c| norm_chroma(c, n, full)).collect(),
    }
}

/// Check one batch; returns through acc.
fn check_batch(acc: &mut Acc, c: &Cfg, l: &Luts, base: u64, ys: &[u16], us: &[u16], vs: &[u16]) {
    let len = ys.len();
    acc.states += len as u64;
    acc.transitions += len as u64;
    let rgb = match decode_dyn(c, ys, us, vs) {
        Ok(r) => r,
        Err(e) => {
            acc.violation(
                base,
                format!("decode-failed {} {}", c.key(), panic_site(&e)),
                e,
                json!({"kind":"c01","cfg":c.json(),"yuv":[ys[0],us[0],vs[0]]}),
            );
            return;
        }
    };
    if (rgb.width(), rgb.height()) != shape_of(len) || rgb.data().len() != len {
        acc.violation(
            base,
            format!("decode-dims {}", c.key()),
            format!("dims {}x{} len {} for input {:?}", rgb.width(), rgb.height(), rgb.data().len(), shape_of(len)),
            json!({"kind":"c01","cfg":c.json(),"yuv":[ys[0],us[0],vs[0]]}),
        );
        return;
    }
    let mut worst = 0.0f64;
    let mut worst_i = 0usize;
    for (i, px) in rgb.data().iter().enumerate() {
        let exp = ypbpr_to_rgb(c.m, l.luma[ys[i] as usize], l.chroma[us[i] as usize], l.chroma[vs[i] as usize]);
        let e = (px[0] as f64 - exp[0]).abs().max((px[1] as f64 - exp[1]).abs()).max((px[2] as f64 - exp[2]).abs());
        let e = if e.is_nan() { f64::INFINITY } else { e };
        if e > worst {
            worst = e;
            worst_i = i;
        }
        if e > TOL {
            acc.violation(
                base + i as u64,
                format!("decode-mismatch {}", c.key()),
                format!(
                    "Y,U,V=({},{},{}) got {} expected [{:.9}, {:.9}, {:.9}] err {:.3e} > 3e-6",
                    ys[i], us[i], vs[i], px3s(*px), exp[0], exp[1], exp[2], e
                ),
                json!({"kind":"c01","cfg":c.json(),"yuv":[ys[i],us[i],vs[i]]}),
            );
            acc.bucket("mismatch", 1);
            return;
        }
    }
    acc.bucket("ok", len as u64);
    acc.worst(&format!("abs_err {}", mc_name(c.m)), worst, || {
        json!({"cfg":c.json(),"yuv":[ys[worst_i],us[worst_i],vs[worst_i]]})
    });
}


/// Adjacent pixel pairs that differ by +1 on one plane and by -2^k on the next one (and the
/// mirrored pairs): two pixels that a key packing the three codes into fields narrower than the
/// bit depth cannot tell apart. Laid out so that the two members of a pair are neighbours in scan
/// order; bases come from a 9-point lattice per plane.
pub fn carry_pairs(n: u32) -> Vec<[u16; 3]> {
    let max = (1i64 << n) - 1;
    let base: Vec<i64> = lattice_codes(n, 9).into_iter().map(i64::from).collect();
    let mut out = vec![];
    let mut push_pair = |a: [i64; 3], b: [i64; 3]| {
        if a.iter().chain(b.iter()).all(|c| (0..=max).contains(c)) {
            out.push([a[0] as u16, a[1] as u16, a[2] as u16]);
            out.push([b[0] as u16, b[1] as u16, b[2] as u16]);
        }
    };
    for k in 6..n {
        let s = 1i64 << k;
        for &y in &base {
            for &u in &base {
                for &v in [base[0], base[base.len() / 2], base[base.len() - 1]].iter() {
                    for sign in [1i64, -1] {
                        push_pair([y, u, v], [y, u + sign, v - sign * s]);
                        push_pair([y, u, v], [y + sign, u - sign * s, v]);
                        push_pair([y, u, v], [y + sign, u, v - sign * s]);
                    }
                }
            }
        }
    }
    out
}

fn run_items(acc: &mut Acc, c: &Cfg, l: &Luts, it: &[[u16; 3]]) {
    let (ys, us, vs): (Vec<u16>, Vec<u16>, Vec<u16>) = (it.iter().map(|t| t[0]).collect(), it.iter().map(|t| t[1]).collect(), it.iter().map(|t| t[2]).collect());
    check_batch(acc, c, l, 0, &ys, &us, &vs);
}
fn items_from(v: &Value) -> Vec<[u16; 3]> {
    v.as_array().unwrap().iter().map(|t| [t[0].as_u64().unwrap() as u16, t[1].as_u64().unwrap() as u16, t[2].as_u64().unwrap() as u16]).collect()
}

pub fn run(tier: Tier) -> Report {
    let mut rep = Report::new("C01");
    let cfgs = configs();
    let mut base = 0u64;
    let mut domain_desc = std::collections::BTreeMap::new();
    for c in &cfgs {
        let l = luts(c.n as u32, c.full);
        for d in domains_for(c, tier) {
            domain_desc.insert(format!("depth {}: {}", c.n, d.describe()), d.len());
            let total = d.len();
            let acc = par_chunks_varied(total, 1 << 16, |acc, lo, hi| {
                let len = (hi - lo) as usize;
                let (mut ys, mut us, mut vs) = (Vec::with_capacity(len), Vec::with_capacity(len), Vec::with_capacity(len));
                for i in lo..hi {
                    let t = d.get(i);
                    ys.push(t[0]);
                    us.push(t[1]);
                    vs.push(t[2]);
                }
                check_batch(acc, c, &l, base + lo, &ys, &us, &vs);
                let items: Vec<[u16; 3]> = (0..ys.len()).map(|i| [ys[i], us[i], vs[i]]).collect();
                refine_violations(acc, base + lo, &items, 1, &|a, it| run_items(a, c, &l, it), &|it| json!(it));
                // the same pixels with other neighbours: reversed scan order (not for the complete cubes)
                if !matches!(d, Triples::Full(_)) {
                    let rev: Vec<[u16; 3]> = items.iter().rev().copied().collect();
                    run_items(acc, c, &l, &rev);
                    refine_violations(acc, 0, &rev, 1, &|a, it| run_items(a, c, &l, it), &|it| json!(it));
                }
                if lo == 0 && c.m == MC::BT709 && c.n == 8 && !c.wide {
                    acc.sample(json!({"cfg": c.json(), "first_triple": [ys[0],us[0],vs[0]], "last_triple_of_chunk": [ys[len-1],us[len-1],vs[len-1]]}));
                }
            });
            rep.acc.merge(acc);
            base += total;
        }
        // two large images per config (cycling the lattice product)
        if !light() {
            let prod = Triples::Product(lattice_codes(c.n as u32, 17));
            for &big in BIG_SIZES.iter() {
                let items: Vec<[u16; 3]> = (0..big as u64).map(|i| prod.get((i * 7919) % prod.len())).collect();
                let mut acc = Acc::default();
                run_items(&mut acc, c, &l, &items);
                refine_violations(&mut acc, 0, &items, 1, &|a, it| run_items(a, c, &l, it), &|it| json!(it));
                acc.bucket("large images (65,539, 262,147 and 1281x721 pixels) decoded", 1);
                rep.acc.merge(acc);
            }
        }
        // carry-collision pairs as scan-order neighbours
        if c.n >= 9 || light() {
            let pairs = carry_pairs(c.n as u32);
            let acc = par_chunks(pairs.len() as u64 / 2, 1 << 13, |acc, lo, hi| {
                let it = &pairs[(2 * lo) as usize..(2 * hi) as usize];
                let before = acc.viols.len();
                run_items(acc, c, &l, it);
                if acc.viols.len() > before {
                    // keep the pair together: the replay case is the two-pixel image
                    let keys: Vec<String> = acc.viols.iter().filter(|(_, v)| v.case.get("shape").is_none()).map(|(k, _)| k.clone()).collect();
                    for k in keys {
                        let i = (acc.viols[&k].index as usize) & !1;
                        let pair = [it[i.min(it.len() - 2)], it[(i + 1).min(it.len() - 1)]];
                        let v = acc.viols.get_mut(&k).unwrap();
                        v.case["shape"] = json!([2, 1]);
                        v.case["batch"] = json!(pair);
                        v.detail = format!("{} [as the neighbour of {:?} in a 2x1 image]", v.detail, if v.index % 2 == 1 { pair[0] } else { pair[1] });
                    }
                }
                acc.bucket("carry-collision neighbour pairs decoded", (hi - lo) as u64);
            });
            rep.acc.merge(acc);
        }
    }
    // labels are passed through
    {
        let c = &cfgs[0];
        let r = decode_dyn(c, &[16], &[128], &[128]).unwrap();
        let (lt, lp) = labels_for(c.n, c.full, c.m);
        let ok = r.transfer() == lt && r.primaries() == lp;
        if !ok {
            rep.acc.violation(0, "decode-labels".into(), format!("labels {:?}/{:?} not copied from config", r.transfer(), r.primaries()), json!({"kind":"c01","cfg":c.json(),"yuv":[16,128,128]}));
        }
    }
    rep.exhaustive = false;
    rep.bound = format!(
        "140 configs (7 matrices x 2 ranges x 10 depth/storage pairs); per config: {:?}; completely exhaustive up to depth {}",
        domain_desc, tier.pick(8, 10)
    );
    rep.rule = "every (config, code triple) of the stated finite domain is decoded by the real Rgb::try_from(&Yuv<T>) in row images of 2^16 pixels and compared per component with the f64 H.273 closed form; a state is one (config, triple)".into();
    rep.assumptions = vec![
        "pointwise behaviour of the decoder (decided separately by C11)".into(),
        "f64 evaluation of the H.273 equations is exact to well below 3e-6".into(),
    ];
    rep.guard_bucket("ok");
    rep.guard("all 140 configs visited", cfgs.len() == 140);
    rep
}

pub fn replay(case: &Value) -> (bool, String) {
    let c = Cfg::from_json(&case["cfg"]);
    let t: Vec<u16> = case["yuv"].as_array().unwrap().iter().map(|v| v.as_u64().unwrap() as u16).collect();
    let l = luts(c.n as u32, c.full);
    let mut acc = Acc::default();
    let (items, shape) = replay_items(case, vec![[t[0], t[1], t[2]]], &items_from);
    with_shape(shape, || run_items(&mut acc, &c, &l, &items));
    match acc.viols.values().next() {
        Some(v) => (true, format!("{} :: {}", v.key, v.detail)),
        None => (false, format!("ok worst={:?}", acc.worst.values().next().map(|w| w.0))),
    }
}
