//! C20 — build configuration changes precision only, never semantics (engine E4).
//!
//! This module is compiled into every one of the 8 build configurations. Per build it (1) re-runs
//! the C01-C06, C08, C10, C18 (and C19) explorations with their own budgets, (2) when fastmath was
//! NOT requested, checks that the math really is libm-exact, and (3) dumps the outputs of a fixed
//! input set so that the driver can compare builds pairwise (`mc xcompare`).

use crate::explore::*;
use crate::img::*;
use crate::refmodel::*;
use serde_json::{json, Value};
use std::io::{Read, Write};
use yuvxyb::{ColorPrimaries as CP, TransferCharacteristic as TC};
use yuvxyb_math::{cbrtf, expf, powf};

fn merge_sub(rep: &mut Report, id: &str, sub: Report) {
    if std::env::var("MC_TIMING").is_ok() {
        eprintln!("[timing] {id} done at {:?} states {}", std::time::SystemTime::now().duration_since(std::time::UNIX_EPOCH).unwrap().as_secs_f64() % 1000.0, sub.acc.states);
    }
    rep.acc.states += sub.acc.states;
    rep.acc.transitions += sub.acc.transitions;
    for (k, v) in sub.acc.buckets {
        *rep.acc.buckets.entry(format!("{id}: {k}")).or_insert(0) += v;
    }
    for (k, v) in sub.acc.worst {
        rep.acc.worst.insert(format!("{id}: {k}"), v);
    }
    for (_, mut v) in sub.acc.viols {
        v.key = format!("{id}: {}", v.key);
        rep.acc.viols.insert(v.key.clone(), v);
    }
    for s in sub.acc.samples.into_iter().take(1) {
        rep.acc.samples.push(json!({"sub_property": id, "sample": s}));
    }
    for (n, ok) in sub.guards {
        rep.guards.push((format!("{id}: {n}"), ok));
    }
}

fn ulp_err(r: f32, exact: f64) -> f64 {
    if exact == 0.0 || !exact.is_finite() || exact.abs() < f32::MIN_POSITIVE as f64 || exact.abs() > f32::MAX as f64 {
        return if (r as f64 == exact) || (exact.abs() < f32::MIN_POSITIVE as f64) || (exact.abs() > f32::MAX as f64) { 0.0 } else { f64::INFINITY };
    }
    let e = ((exact.to_bits() >> 52) & 0x7FF) as i64 - 1023;
    let ulp = f64::from_bits(((e - 23 + 1023) as u64) << 52);
    (r as f64 - exact).abs() / ulp
}

/// With fastmath not requested: curves within 5e-5 of their definitions, helpers within 2 ulp of libm.
fn exact_math_checks(rep: &mut Report) {
    let dom = super::c03::quick_domain();
    let xs: Vec<f32> = dom.iter().map(|&b| f32::from_bits(b)).collect();
    let mut acc = Acc::default();
    for g in [false, true] {
        for &t in super::c03::DISTINCT.iter() {
            let out = if g { super::c03::to_gamma(t, &xs) } else { super::c03::to_linear(t, &xs) };
            acc.states += xs.len() as u64;
            acc.transitions += xs.len() as u64;
            match out {
                Ok(o) => {
                    let mut worst = 0.0f64;
                    let mut wi = 0;
                    for i in 0..xs.len() {
                        let exp = if g { tc_to_gamma(t, xs[i] as f64) } else { tc_to_linear(t, xs[i] as f64) }.unwrap();
                        let mut e = (o[i] as f64 - exp).abs();
                        if t == TC::PerceptualQuantizer {
                            // either self-consistent reading of the BT.2100 OOTF constants is the definition (DESIGN 2.3)
                            let hp = if g { pq_to_gamma_hp(xs[i] as f64) } else { pq_to_linear_hp(xs[i] as f64) };
                            e = e.min((o[i] as f64 - hp).abs());
                        }
                        if e > worst {
                            worst = e;
                            wi = i;
                        }
                    }
                    acc.worst(&format!("fastmath off: curve error {t:?} to_gamma={g} (budget 5e-5)"), worst, || json!(null));
                    if !(worst < 5e-5) {
                        acc.violation(
                            wi as u64,
                            format!("fastmath-off curve-not-exact tc={t:?} dir={}", if g { "to_gamma" } else { "to_linear" }),
                            format!("x={:e} -> {:e}: {worst:.3e} from the definition, budget 5e-5 for the exact-math build", xs[wi], o[wi]),
                            json!({"kind":"c20exact","what":"curve","tc":format!("{t:?}"),"to_gamma":g,"x":xs[wi].to_bits()}),
                        );
                    } else {
                        acc.bucket("fastmath off: curve within 5e-5 of its definition", 1);
                    }
                }
                Err(e) => acc.violation(0, format!("fastmath-off curve-failed tc={t:?}"), e, json!({"kind":"c20exact","what":"curve","tc":format!("{t:?}"),"to_gamma":g,"x":0})),
            }
        }
    }
    // helpers vs libm
    let pats: Vec<f32> = (0..1u32 << 20).map(|i| f32::from_bits(i << 12)).collect();
    let (mut wp, mut wc, mut we) = ((0.0f64, 0u32, 0u32), (0.0f64, 0u32), (0.0f64, 0u32));
    for &x in &pats {
        if x.is_normal() {
            let e = ulp_err(cbrtf(x), (x as f64).cbrt());
            if e > wc.0 {
                wc = (e, x.to_bits());
            }
            if x > 0.0 {
                for y in super::c18::EXPONENTS {
                    let exact = (x as f64).powf(y as f64);
                    if (1e-35..=1e35).contains(&exact) {
                        let e = ulp_err(powf(x, y), exact);
                        if e > wp.0 {
                            wp = (e, x.to_bits(), y.to_bits());
                        }
                    }
                }
            }
        }
        if (-85.0..=85.0).contains(&x) {
            let e = ulp_err(expf(x), (x as f64).exp());
            if e > we.0 {
                we = (e, x.to_bits());
            }
        }
    }
    acc.states += pats.len() as u64;
    acc.transitions += 14 * pats.len() as u64;
    for (name, w, case) in [
        ("powf", wp.0, json!({"kind":"c20exact","what":"powf","x":wp.1,"y":wp.2})),
        ("cbrtf", wc.0, json!({"kind":"c20exact","what":"cbrtf","x":wc.1})),
        ("expf", we.0, json!({"kind":"c20exact","what":"expf","x":we.1})),
    ] {
        acc.worst(&format!("fastmath off: {name} ulp distance from libm (budget 2)"), w, || json!(null));
        if !(w <= 2.0) {
            acc.violation(0, format!("fastmath-off helper-not-libm-exact fn={name}"), format!("{name} is {w:.1} ulp away from libm in a build that did not request `fastmath` (the approximations are still compiled in)"), case);
        } else {
            acc.bucket("fastmath off: helper within 2 ulp of libm", 1);
        }
    }
    rep.acc.merge(acc);
}

fn replay_exact(case: &Value) -> (bool, String) {
    let x = f32::from_bits(case["x"].as_u64().unwrap_or(0) as u32);
    match case["what"].as_str().unwrap() {
        "curve" => {
            let t = tc_from_name(case["tc"].as_str().unwrap());
            let g = case["to_gamma"].as_bool().unwrap();
            let o = if g { super::c03::to_gamma(t, &[x]) } else { super::c03::to_linear(t, &[x]) };
            let exp = if g { tc_to_gamma(t, x as f64) } else { tc_to_linear(t, x as f64) }.unwrap();
            match o {
                Ok(o) => {
                    let mut e = (o[0] as f64 - exp).abs();
                    if t == TC::PerceptualQuantizer {
                        let hp = if g { pq_to_gamma_hp(x as f64) } else { pq_to_linear_hp(x as f64) };
                        e = e.min((o[0] as f64 - hp).abs());
                    }
                    (!(e < 5e-5), format!("curve {t:?} x={x:e} -> {:e} err {e:.3e}", o[0]))
                }
                Err(e) => (true, e),
            }
        }
        "powf" => {
            let y = f32::from_bits(case["y"].as_u64().unwrap() as u32);
            let e = ulp_err(powf(x, y), (x as f64).powf(y as f64));
            (!(e <= 2.0), format!("powf({x:e},{y:e}) {e:.1} ulp from libm"))
        }
        "cbrtf" => {
            let e = ulp_err(cbrtf(x), (x as f64).cbrt());
            (!(e <= 2.0), format!("cbrtf({x:e}) {e:.1} ulp from libm"))
        }
        _ => {
            let e = ulp_err(expf(x), (x as f64).exp());
            (!(e <= 2.0), format!("expf({x:e}) {e:.1} ulp from libm"))
        }
    }
}

// ---- cross-build dump ----------------------------------------------------------------------------

/// (section name, comparison class, values). Inputs are generated identically in every build.
pub fn sections() -> Vec<(String, &'static str, Vec<f32>)> {
    let mut out: Vec<(String, &'static str, Vec<f32>)> = vec![];
    set_light(true);
    let dom: Vec<f32> = super::c03::quick_domain().iter().map(|&b| f32::from_bits(b)).collect();
    for &t in SUPPORTED_TRANSFERS.iter() {
        for g in [false, true] {
            let o = if g { super::c03::to_gamma(t, &dom) } else { super::c03::to_linear(t, &dom) }.unwrap_or_default();
            let class = if t == TC::PerceptualQuantizer && g { "curve_pq" } else { "curve" };
            out.push((format!("curve/{t:?}/{}", if g { "to_gamma" } else { "to_linear" }), class, o));
        }
    }
    let a = super::c04::axis(4.0, 24);
    let al = a.len();
    let px: Vec<[f32; 3]> = (0..al * al * al).map(|i| [a[i / (al * al)], a[(i / al) % al], a[i % al]]).collect();
    let xyb = super::c04::to_xyb(&px).unwrap_or_default();
    out.push(("xyb/forward".into(), "xyb", xyb.iter().flatten().copied().collect()));
    let a1 = super::c04::axis(1.0, 24);
    let px1: Vec<[f32; 3]> = (0..al * al * al).map(|i| [a1[i / (al * al)], a1[(i / al) % al], a1[i % al]]).collect();
    let back = {
        let len = px1.len();
        guarded(|| yuvxyb::LinearRgb::from(yuvxyb::Xyb::from(yuvxyb::LinearRgb::new(px1, len, 1).unwrap())).into_data()).unwrap_or_default()
    };
    out.push(("xyb/roundtrip".into(), "xyb_inv", back.iter().flatten().copied().collect()));
    // decode / encode (no fastmath dependence: must be bit-identical between fastmath on and off)
    for c in super::c01::configs().iter().filter(|c| c.n == 8 || c.n == 12 || c.n == 16) {
        let codes = lattice_codes(c.n as u32, 9);
        let l = codes.len();
        let (mut ys, mut us, mut vs) = (vec![], vec![], vec![]);
        for i in 0..l * l * l {
            ys.push(codes[i / (l * l)]);
            us.push(codes[(i / l) % l]);
            vs.push(codes[i % l]);
        }
        let rgb = super::c01::decode_dyn(c, &ys, &us, &vs).map(|r| r.data().iter().flatten().copied().collect()).unwrap_or_default();
        out.push((format!("decode/{}/u16={}", c.key(), c.wide), "decode", rgb));
    }
    let steps = 12;
    let g: Vec<f32> = (0..=steps).map(|i| -0.5 + 2.0 * i as f32 / steps as f32).collect();
    let gl = g.len();
    let epx: Vec<[f32; 3]> = (0..gl * gl * gl).map(|i| [g[i / (gl * gl)], g[(i / gl) % gl], g[i % gl]]).collect();
    for c in super::c01::configs().iter().filter(|c| c.n == 8 || c.n == 10 || c.n == 16) {
        let len = epx.len();
        let rgb = yuvxyb::Rgb::new(epx.clone(), len, 1, TC::BT1886, CP::BT709).unwrap();
        let cfg = cfg444(c.n, c.full, c.m);
        let codes: Vec<f32> = guarded(|| {
            if c.wide {
                yuvxyb::Yuv::<u16>::try_from((&rgb, cfg)).map(|y| y.data().iter().flat_map(|p| plane_samples(p)).map(|v| v as f32).collect()).unwrap_or_default()
            } else {
                yuvxyb::Yuv::<u8>::try_from((&rgb, cfg)).map(|y| y.data().iter().flat_map(|p| plane_samples(p)).map(|v| v as f32).collect()).unwrap_or_default()
            }
        })
        .unwrap_or_else(|_| vec![-1.0]);
        out.push((format!("encode/{}/u16={}", c.key(), c.wide), "encode", codes));
    }
    let pg: Vec<f32> = (0..=10).map(|i| -0.5 + 0.25 * i as f32).collect();
    let pl = pg.len();
    let ppx: Vec<[f32; 3]> = (0..pl * pl * pl).map(|i| [pg[i / (pl * pl)], pg[(i / pl) % pl], pg[i % pl]]).collect();
    for &p in SUPPORTED_PRIMARIES.iter() {
        for to709 in [true, false] {
            let o = super::c06::convert(p, to709, &ppx).map(|o| o.iter().flatten().copied().collect()).unwrap_or_default();
            out.push((format!("primaries/{p:?}/to709={to709}"), "primaries", o));
        }
    }
    // discrete verdicts: constructor acceptance and conversion support must be identical in every build
    {
        use crate::geom::*;
        use yuvxyb::{Yuv, YuvError};
        let mut specs = small_box(3);
        let base = FSpec::well_formed(4, 4, (1, 1), true, 10, 1);
        let f = build::<u16>(&base);
        for p in 0..3 {
            for i in 0..f.planes[p].data.len() {
                for val in [1024u16, 65535] {
                    let mut sp = base;
                    sp.bad = Some((p, i, val));
                    specs.push(sp);
                }
            }
        }
        for depth in 8..=16u8 {
            let mut sp = FSpec::well_formed(2, 2, (0, 0), true, depth, 0);
            sp.bad = Some((0, 1, sp.max_code().saturating_add(1)));
            specs.push(sp);
        }
        let code = |r: Result<Result<(), YuvError>, String>| -> f32 {
            match r {
                Ok(Ok(())) => 0.0,
                Ok(Err(YuvError::SubsamplingMismatch)) => 1.0,
                Ok(Err(YuvError::InvalidLumaWidth)) => 2.0,
                Ok(Err(YuvError::InvalidLumaHeight)) => 3.0,
                Ok(Err(YuvError::InvalidData)) => 4.0,
                Err(_) => 9.0,
            }
        };
        let v: Vec<f32> = specs
            .iter()
            .filter(|s| s.buildable())
            .map(|s| if s.wide { code(guarded(|| Yuv::new(build::<u16>(s), s.config()).map(|_| ()))) } else { code(guarded(|| Yuv::new(build::<u8>(s), s.config()).map(|_| ()))) })
            .collect();
        out.push(("verdict/yuv_new".into(), "verdict", v));
        use super::c14::{all_meta, run_conv, PAIRS};
        let mut v = vec![];
        for m in all_meta() {
            for (a, b, _) in PAIRS {
                for c in [a, b] {
                    v.push(match run_conv(c, &m) {
                        Ok(Ok(_)) => 0.0,
                        Ok(Err(e)) => 1.0 + (e as u8) as f32,
                        Err(_) => 99.0,
                    });
                }
            }
        }
        out.push(("verdict/conversions".into(), "verdict", v));
    }
    let pats: Vec<f32> = (0..1u32 << 16).map(|i| f32::from_bits(i << 16)).collect();
    out.push(("math/cbrtf".into(), "cbrtf", pats.iter().map(|&x| if x.is_normal() { cbrtf(x) } else { 0.0 }).collect()));
    out.push(("math/expf".into(), "expf", pats.iter().map(|&x| if (-85.0..=85.0).contains(&x) { expf(x) } else { 0.0 }).collect()));
    for y in super::c18::EXPONENTS {
        out.push((
            format!("math/powf/{y}"),
            "powf",
            pats.iter().map(|&x| if x.is_normal() && x > 0.0 && (1e-35..=1e35).contains(&(x as f64).powf(y as f64)) { powf(x, y) } else { 0.0 }).collect(),
        ));
    }
    out
}

pub fn xdump(path: &str) {
    let secs = sections();
    let mut f = std::io::BufWriter::new(std::fs::File::create(path).expect("create dump"));
    f.write_all(&(secs.len() as u32).to_le_bytes()).unwrap();
    for (name, class, vals) in secs {
        for s in [name.as_bytes(), class.as_bytes()] {
            f.write_all(&(s.len() as u32).to_le_bytes()).unwrap();
            f.write_all(s).unwrap();
        }
        f.write_all(&(vals.len() as u32).to_le_bytes()).unwrap();
        for v in vals {
            f.write_all(&v.to_bits().to_le_bytes()).unwrap();
        }
    }
}

fn read_dump(path: &str) -> Vec<(String, String, Vec<f32>)> {
    let mut buf = vec![];
    std::fs::File::open(path).expect("open dump").read_to_end(&mut buf).unwrap();
    let mut pos = 0usize;
    let mut u32r = |pos: &mut usize| {
        let v = u32::from_le_bytes(buf[*pos..*pos + 4].try_into().unwrap());
        *pos += 4;
        v
    };
    let n = u32r(&mut pos);
    let mut out = vec![];
    for _ in 0..n {
        let mut strs = vec![];
        for _ in 0..2 {
            let l = u32r(&mut pos) as usize;
            strs.push(String::from_utf8(buf[pos..pos + l].to_vec()).unwrap());
            pos += l;
        }
        let l = u32r(&mut pos) as usize;
        let mut vals = Vec::with_capacity(l);
        for _ in 0..l {
            vals.push(f32::from_bits(u32r(&mut pos)));
        }
        out.push((strs[0].clone(), strs[1].clone(), vals));
    }
    out
}

/// Allowed |a-b| for a comparison class and mode; None = must be identical (discrete data).
fn tolerance(mode: &str, class: &str, a: f32) -> Option<f64> {
    let v = a.abs() as f64;
    // Where the configuration difference cannot matter the builds execute the same arithmetic and
    // are expected to agree exactly; the property only promises "precision only", so a few ulps
    // (e.g. a libm call constant-folded at one optimisation level) are tolerated for float data.
    let ulps = Some(5e-7 * v + 1e-9);
    if class == "verdict" {
        return None;
    }
    if class == "encode" {
        // integer codes: identical unless FMA changes the rounding of the matrix product
        return if mode == "fma" { Some(1.0) } else { None };
    }
    match mode {
        // same features and target, other optimisation/assertion profile: same arithmetic
        "profile" => ulps,
        // fastmath on vs off (same FMA, same profile): only the math helpers may differ, within the fastmath budget
        "fastmath" => match class {
            "curve" => Some(2.5e-4),
            "curve_pq" => Some(5.7e-4),
            "xyb" => Some(2e-6),
            "xyb_inv" => Some(5e-5),
            "cbrtf" => Some(2.4e-7 * v.max(1e-30)),
            "expf" => Some(1e-5 * v),
            "powf" => Some(9e-4 * v),
            _ => ulps, // decode, primaries do not use the math helpers
        },
        // FMA on vs off: both within each property's budget of the truth
        _ => match class {
            "curve" => Some(5e-4),
            "curve_pq" => Some(1.14e-3),
            "xyb" => Some(4e-6),
            "xyb_inv" => Some(1e-4),
            "decode" => Some(6e-6),
            "primaries" => Some(2e-5 * v.max(1.0)),
            "cbrtf" => Some(2.4e-7 * v.max(1e-30)),
            "expf" => Some(2e-5 * v),
            "powf" => Some(1.8e-3 * v),
            _ => ulps,
        },
    }
}

pub fn xcompare(a: &str, b: &str, mode: &str) -> Value {
    let (da, db) = (read_dump(a), read_dump(b));
    let mut viols = vec![];
    let mut compared = 0u64;
    let mut identical_sections = 0u64;
    if da.len() != db.len() {
        viols.push(json!({"section":"<layout>","detail":format!("{} vs {} sections", da.len(), db.len())}));
    }
    for ((na, ca, va), (nb, _, vb)) in da.iter().zip(db.iter()) {
        if na != nb || va.len() != vb.len() {
            viols.push(json!({"section":na,"detail":format!("section mismatch {na}/{nb} len {}/{}", va.len(), vb.len())}));
            continue;
        }
        let mut ident = true;
        for i in 0..va.len() {
            compared += 1;
            let (x, y) = (va[i], vb[i]);
            if x.to_bits() == y.to_bits() || (x.is_nan() && y.is_nan()) || x == y {
                continue;
            }
            ident = false;
            let ok = match tolerance(mode, ca, x) {
                None => false,
                Some(t) => ((x as f64) - (y as f64)).abs() <= t,
            };
            if !ok {
                viols.push(json!({"section":na,"class":ca,"index":i,"detail":format!("{na}[{i}]: {x:e} vs {y:e} ({})", match tolerance(mode, ca, x) { None => "must be bit-identical".to_string(), Some(t) => format!("allowed {t:.3e}") })}));
                break;
            }
        }
        if ident {
            identical_sections += 1;
        }
    }
    json!({"mode":mode,"sections":da.len(),"values_compared":compared,"bit_identical_sections":identical_sections,"violations":viols})
}

pub fn run(tier: Tier) -> Report {
    let mut rep = Report::new("C20");
    set_light(tier == Tier::Quick);
    let q = Tier::Quick;
    merge_sub(&mut rep, "C01", super::c01::run(q));
    merge_sub(&mut rep, "C02", super::c02::run(q));
    merge_sub(&mut rep, "C03", super::c03::run(q));
    merge_sub(&mut rep, "C04", super::c04::run(q));
    merge_sub(&mut rep, "C05", super::c04::run_c05(q));
    merge_sub(&mut rep, "C06", super::c06::run(q));
    merge_sub(&mut rep, "C08", super::c08::run(q));
    merge_sub(&mut rep, "C09", super::c09::run(q));
    merge_sub(&mut rep, "C10", super::c03::run_c10(q));
    merge_sub(&mut rep, "C18", super::c18::run(q));
    merge_sub(&mut rep, "C19", super::c19::run(q));
    if !cfg!(feature = "fastmath") {
        exact_math_checks(&mut rep);
        rep.guard_bucket("fastmath off: helper within 2 ulp of libm");
    }
    if let Ok(p) = std::env::var("MC_XDUMP") {
        xdump(&p);
    }
    rep.bound = format!(
        "this build configuration x the {} alphabets of C01-C06, C08, C09 (4:4:4, 8 and 10 bit), C10, C18, C19; plus (fastmath not requested) 9 curves x 2 directions on the C03 stratum against the 5e-5 exact-math budget and powf/cbrtf/expf on 2^20 bit patterns x 12 exponents against libm; plus a cross-build dump of {} output sections",
        if tier == Tier::Quick { "matrix-tier (reduced quick)" } else { "full quick" },
        14 * 2 + 2 + 84 + 84 + 22 + 14
    );
    rep.rule = "same checks, same budgets in every build configuration {fastmath on/off} x {FMA off/on} x {release, checked}; builds are compared pairwise on identical inputs by the driver".into();
    rep
}

pub fn replay(case: &Value) -> (bool, String) {
    replay_exact(case)
}
