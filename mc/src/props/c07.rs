//! C07 — no safe API call sequence reaches undefined behaviour (hooks armed; run in release and
//! checked builds; every stage in a child process).
//!
//! Stages: frame geometry (decode side), deviation-bounded geometry, encode geometry, every f32
//! into every transfer curve, special floats through every conversion. The call-sequence
//! exploration (engine E3, stateright) lives in /verif/seq and is merged by the driver.

use crate::explore::*;
use crate::geom::*;
use crate::refmodel::*;
use serde_json::{json, Value};
use yuvxyb::{
    ColorPrimaries as CP, Hsl, LinearRgb, MatrixCoefficients as MC, Pixel, Rgb, TransferCharacteristic as TC, Xyb, Yuv, YuvConfig,
};

const SLOTS: u64 = 1 + 64 + 64 * 63 / 2;

fn ub_violation(acc: &mut Acc, idx: u64, op: &str, msg: &str, what: String, case: Value) -> bool {
    let site = panic_site(msg);
    if site.starts_with("hook:") {
        acc.violation(idx, format!("ub-hook site={} op={op}", &site[5..]), format!("{what}: {msg}"), case);
        acc.bucket("hook fired (would be undefined behaviour)", 1);
        true
    } else {
        acc.bucket(&format!("clean panic in {op} (not UB; counted)"), 1);
        false
    }
}

fn decode_all<T: Pixel>(acc: &mut Acc, idx: u64, s: &FSpec) {
    let case = || json!({"kind":"c07geom","spec":s.json()});
    acc.states += 1;
    let frame = build::<T>(s);
    acc.transitions += 1;
    let yuv = match guarded(|| Yuv::new(frame, s.config())) {
        Ok(Ok(y)) => y,
        Ok(Err(_)) => {
            acc.bucket("frame rejected by Yuv::new", 1);
            return;
        }
        Err(p) => {
            ub_violation(acc, idx, "Yuv::new", &p, s.short(), case());
            return;
        }
    };
    // second clause: an accepted frame's chroma planes cover (w>>ss_x, h>>ss_y) indexing
    let (w, h) = (s.p[0].w, s.p[0].h);
    let need = (((w - 1) >> s.ss.0) + 1, ((h - 1) >> s.ss.1) + 1);
    if s.p[1].w < need.0 || s.p[1].h < need.1 || s.p[2].w < need.0 || s.p[2].h < need.1 {
        acc.violation(idx, "uncovering-frame-accepted".into(), format!("{}: accepted although the chroma planes cannot cover {}x{} chroma positions", s.short(), need.0, need.1), case());
        acc.bucket("uncovering frame accepted", 1);
    }
    acc.bucket("frame accepted, all conversions run", 1);
    let cfg = yuv.config();
    type R = Result<(), String>;
    let ops: [(&str, Box<dyn Fn() -> R + '_>); 5] = [
        ("Rgb::try_from(&Yuv)", Box::new(|| guarded(|| Rgb::try_from(&yuv).map(|_| ())).map(|_| ()))),
        ("LinearRgb::try_from(&Yuv)", Box::new(|| guarded(|| LinearRgb::try_from(&yuv).map(|_| ())).map(|_| ()))),
        ("Xyb::try_from(&Yuv)", Box::new(|| guarded(|| Xyb::try_from(&yuv).map(|_| ())).map(|_| ()))),
        ("Xyb::try_from(Yuv)", Box::new(|| guarded(|| Xyb::try_from(yuv.clone()).map(|_| ())).map(|_| ()))),
        (
            "Yuv::try_from((Rgb::try_from(&Yuv), cfg))",
            Box::new(|| {
                guarded(|| {
                    if let Ok(rgb) = Rgb::try_from(&yuv) {
                        let _ = Yuv::<T>::try_from((&rgb, cfg));
                        let mut c2 = cfg;
                        c2.bit_depth = 16;
                        let _ = Yuv::<u16>::try_from((rgb, c2));
                    }
                })
            }),
        ),
    ];
    for (name, op) in ops.iter() {
        acc.transitions += 1;
        if let Err(p) = op() {
            if ub_violation(acc, idx, name, &p, s.short(), case()) {
                return;
            }
        }
    }
}

fn decode_dyn(acc: &mut Acc, idx: u64, s: &FSpec) {
    if !s.buildable() {
        return;
    }
    if s.wide {
        decode_all::<u16>(acc, idx, s)
    } else {
        decode_all::<u8>(acc, idx, s)
    }
}

fn dev_spec(bases: &[FSpec], i: u64) -> Option<FSpec> {
    let b = bases[(i / SLOTS) as usize];
    let k = i % SLOTS;
    if k == 0 {
        return Some(b);
    }
    let devs = deviations(&b);
    let d = devs.len() as u64;
    assert!(d <= 64, "more deviations than slots");
    if k <= 64 {
        if k > d {
            return None;
        }
        let mut s = b;
        apply(&mut s, devs[(k - 1) as usize]);
        return Some(s);
    }
    // pair index -> (j1 < j2) over 64 slots
    let mut r = k - 65;
    let mut j1 = 0u64;
    while r >= 63 - j1 {
        r -= 63 - j1;
        j1 += 1;
    }
    let j2 = j1 + 1 + r;
    if j2 >= d || b.p[0].w > 12 || b.p[0].h > 12 {
        return None;
    }
    let mut s = b;
    apply(&mut s, devs[j1 as usize]);
    apply(&mut s, devs[j2 as usize]);
    Some(s)
}

// ---- encode geometry ---------------------------------------------------------------------------

#[derive(Clone, Copy, Debug)]
struct Enc {
    w: usize,
    h: usize,
    ss: (u8, u8),
    wide: bool,
    src: u8,
    /// declared bit depth; 0 = the storage's usual one (8 for u8, 10 for u16)
    depth: u8,
}
fn enc_sizes(tier: Tier) -> Vec<usize> {
    match tier {
        // 65 and 129: one more than a multiple of the plane alignment unit (32 u16 / 64 u8 samples):
        // a chroma row of (w-1)/2 samples then fills its stride exactly, and one sample more is the
        // next row or the end of the buffer
        Tier::Quick => {
            let mut v: Vec<usize> = (1..=9).collect();
            v.extend([65, 129]);
            v
        }
        Tier::Thorough => {
            let mut v: Vec<usize> = (1..=12).collect();
            v.extend([63, 64, 65, 129, 257]);
            v
        }
    }
}
fn enc_cases(tier: Tier) -> Vec<Enc> {
    let mut v = vec![];
    let sz = enc_sizes(tier);
    for &w in &sz {
        for &h in &sz {
            for ssx in 0..=2u8 {
                for ssy in 0..=2u8 {
                    for wide in [false, true] {
                        for src in 0..4u8 {
                            v.push(Enc { w, h, ss: (ssx, ssy), wide, src, depth: 0 });
                        }
                    }
                }
            }
        }
    }
    // every declared bit depth 8..=16 with BOTH storage types: the constructor accepts u8 storage
    // labelled with more than 8 bits (samples are then truncated, which is defined behaviour), so the
    // quantiser runs with code ranges wider than the storage type
    for (w, h, ss) in [(2usize, 2usize, (0u8, 0u8)), (4, 2, (1, 1))] {
        for wide in [false, true] {
            for src in 0..4u8 {
                for depth in 8..=16u8 {
                    v.push(Enc { w, h, ss, wide, src, depth });
                }
            }
        }
    }
    v
}
fn enc_json(e: &Enc) -> Value {
    json!({"kind":"c07enc","w":e.w,"h":e.h,"ss":[e.ss.0,e.ss.1],"u16":e.wide,"src":e.src,"depth":e.depth})
}
fn encode_case(acc: &mut Acc, idx: u64, e: &Enc) {
    acc.states += 1;
    acc.transitions += 1;
    let data: Vec<[f32; 3]> = (0..e.w * e.h).map(|i| [0.1 + 0.8 * (i % 7) as f32 / 7.0, 0.5, 0.9 - 0.8 * (i % 5) as f32 / 5.0]).collect();
    let cfg = YuvConfig {
        bit_depth: if e.depth != 0 { e.depth } else if e.wide { 10 } else { 8 },
        subsampling_x: e.ss.0,
        subsampling_y: e.ss.1,
        full_range: false,
        matrix_coefficients: MC::BT709,
        transfer_characteristics: TC::BT1886,
        color_primaries: CP::BT709,
    };
    fn go<T: Pixel>(src: u8, data: Vec<[f32; 3]>, w: usize, h: usize, cfg: YuvConfig) -> Result<bool, String> {
        guarded(|| match src {
            0 => Yuv::<T>::try_from((&Rgb::new(data, w, h, TC::BT1886, CP::BT709).unwrap(), cfg)).is_ok(),
            1 => Yuv::<T>::try_from((Rgb::new(data, w, h, TC::BT1886, CP::BT709).unwrap(), cfg)).is_ok(),
            2 => Yuv::<T>::try_from((LinearRgb::new(data, w, h).unwrap(), cfg)).is_ok(),
            _ => Yuv::<T>::try_from((Xyb::new(data, w, h).unwrap(), cfg)).is_ok(),
        })
    }
    let r = if e.wide { go::<u16>(e.src, data, e.w, e.h, cfg) } else { go::<u8>(e.src, data, e.w, e.h, cfg) };
    let fits = e.w % (1 << e.ss.0) == 0 && e.h % (1 << e.ss.1) == 0;
    match r {
        Ok(true) => acc.bucket(if fits { "encode: dims fit subsampling, Ok" } else { "encode: dims do not fit subsampling, Ok" }, 1),
        Ok(false) => acc.bucket(if fits { "encode: dims fit subsampling, Err" } else { "encode: dims do not fit subsampling, Err (no out-of-bounds write)" }, 1),
        Err(p) => {
            ub_violation(
                acc,
                idx,
                if fits { "encode dims-fit" } else { "encode dims-do-not-fit-subsampling" },
                &p,
                format!("{}x{} float image -> Yuv<{}> ss ({},{}) from source kind {}", e.w, e.h, if e.wide { "u16" } else { "u8" }, e.ss.0, e.ss.1, e.src),
                enc_json(e),
            );
        }
    }
}

// ---- every float into every curve ---------------------------------------------------------------

pub const CURVES13: [TC; 13] = [
    TC::BT1886,
    TC::ST170M,
    TC::ST240M,
    TC::BT2020Ten,
    TC::BT2020Twelve,
    TC::BT470M,
    TC::BT470BG,
    TC::SRGB,
    TC::XVYCC,
    TC::Logarithmic100,
    TC::Logarithmic316,
    TC::PerceptualQuantizer,
    TC::HybridLogGamma,
];

pub fn quick_patterns() -> Vec<u32> {
    let mut v: Vec<u32> = (0..1u32 << 21).map(|i| i << 11).collect();
    for s in super::c18::specials() {
        v.push(s.to_bits());
    }
    for c in [0u32, 0x8000_0000, 0x3F80_0000, 0xBF80_0000, 0x7F7F_FFFF, 0xFF7F_FFFF, 0x7F80_0000, 0xFF80_0000, 0x0080_0000, 0x8080_0000] {
        for d in -64i64..=64 {
            let b = c as i64 + d;
            if (0..=u32::MAX as i64).contains(&b) {
                v.push(b as u32);
            }
        }
    }
    v.sort_unstable();
    v.dedup();
    v
}

fn curve_range(acc: &mut Acc, pats: Option<&[u32]>, npat: u64, lo: u64, hi: u64) {
    // [lo,hi) lies within one (curve, direction) block by construction of the chunking
    let cd = (lo / npat) as usize;
    let (t, g) = (CURVES13[cd / 2], cd % 2 == 1);
    let xs: Vec<f32> = (lo..hi).map(|i| f32::from_bits(match pats { Some(p) => p[(i % npat) as usize], None => (i % npat) as u32 })).collect();
    acc.states += xs.len() as u64;
    acc.transitions += xs.len() as u64;
    let f = |xs: &[f32]| if g { super::c03::to_gamma(t, xs) } else { super::c03::to_linear(t, xs) };
    match f(&xs) {
        Ok(_) => acc.bucket("float into curve: no unsafe precondition violated", xs.len() as u64),
        Err(_) => {
            // find the first offending value
            for (k, &x) in xs.iter().enumerate() {
                if let Err(p) = f(&[x]) {
                    let case = json!({"kind":"c07curve","tc":format!("{t:?}"),"to_gamma":g,"x":x.to_bits()});
                    let class = if x.is_nan() { "NaN" } else if x.is_infinite() { "inf" } else { "finite" };
                    let site = panic_site(&p);
                    if site.starts_with("hook:") {
                        acc.violation(lo + k as u64, format!("ub-hook site={} op=curve tc={t:?} dir={} input={class}", &site[5..], if g { "to_gamma" } else { "to_linear" }), format!("x={x:e} (bits {:#x}): {p}", x.to_bits()), case);
                        acc.bucket("hook fired (would be undefined behaviour)", 1);
                    } else {
                        acc.bucket("clean panic in curve (not UB; counted)", 1);
                    }
                    return;
                }
            }
        }
    }
}

// ---- special floats through every conversion ----------------------------------------------------

pub fn special12() -> Vec<f32> {
    vec![0.0, 0.5, 1.0, -0.25, 1.5, 1e-40, f32::NAN, f32::INFINITY, f32::NEG_INFINITY, 3e38, -3e38, f32::from_bits(0x7F80_0001)]
}

fn special_cases() -> Vec<(u8, usize, usize)> {
    // (operation kind, transfer index, primaries index)
    let mut v = vec![];
    for ti in 0..SUPPORTED_TRANSFERS.len() {
        for pi in 0..SUPPORTED_PRIMARIES.len() {
            for op in 0..4u8 {
                v.push((op, ti, pi));
            }
        }
    }
    v.push((4, 0, 0)); // XYB both ways
    v.push((5, 0, 0)); // HSL both ways
    v
}

fn special_case(acc: &mut Acc, idx: u64, c: (u8, usize, usize)) {
    special_case_n(acc, idx, c, 12)
}
fn special_case_n(acc: &mut Acc, idx: u64, c: (u8, usize, usize), take: usize) {
    let mut sp = special12();
    // for the reduced (Miri) alphabet keep 0.5, NaN, +inf, -3e38
    if take < sp.len() {
        sp = vec![0.5, f32::NAN, f32::INFINITY, -3e38];
    }
    let n = sp.len();
    let px: Vec<[f32; 3]> = (0..n * n * n).map(|i| [sp[i / (n * n)], sp[(i / n) % n], sp[i % n]]).collect();
    let (w, h) = (n * n, n);
    let (t, p) = (SUPPORTED_TRANSFERS[c.1], SUPPORTED_PRIMARIES[c.2]);
    acc.states += px.len() as u64;
    acc.transitions += px.len() as u64;
    let name;
    let r: Result<(), String> = match c.0 {
        0 => {
            name = "LinearRgb::try_from(Rgb)";
            guarded(|| LinearRgb::try_from(Rgb::new(px.clone(), w, h, t, p).unwrap()).map(|_| ())).map(|_| ())
        }
        1 => {
            name = "Rgb::try_from((LinearRgb,t,p))";
            guarded(|| Rgb::try_from((LinearRgb::new(px.clone(), w, h).unwrap(), t, p)).map(|_| ())).map(|_| ())
        }
        2 => {
            name = "Yuv::try_from((LinearRgb,cfg))";
            guarded(|| {
                let cfg = crate::img::cfg_full(10, c.2 % 2 == 0, (0, 0), STD_MATRICES[c.1 % 7], t, p);
                Yuv::<u16>::try_from((LinearRgb::new(px.clone(), w, h).unwrap(), cfg)).map(|_| ())
            })
            .map(|_| ())
        }
        3 => {
            name = "Yuv::try_from((Xyb,cfg)) / Xyb::try_from(Rgb)";
            guarded(|| {
                let cfg = crate::img::cfg_full(8, c.2 % 2 == 1, (0, 0), STD_MATRICES[c.1 % 7], t, p);
                let _ = Yuv::<u8>::try_from((Xyb::new(px.clone(), w, h).unwrap(), cfg));
                let _ = Xyb::try_from(Rgb::new(px.clone(), w, h, t, p).unwrap());
            })
        }
        4 => {
            name = "Xyb::from(LinearRgb) / LinearRgb::from(Xyb)";
            guarded(|| {
                let _ = Xyb::from(LinearRgb::new(px.clone(), w, h).unwrap());
                let _ = LinearRgb::from(Xyb::new(px.clone(), w, h).unwrap());
            })
        }
        _ => {
            name = "Hsl::from(LinearRgb) / LinearRgb::from(Hsl)";
            guarded(|| {
                let _ = Hsl::from(LinearRgb::new(px.clone(), w, h).unwrap());
                let _ = LinearRgb::from(Hsl::new(px.clone(), w, h).unwrap());
            })
        }
    };
    match r {
        Ok(()) => acc.bucket("special-float image converted: no unsafe precondition violated", 1),
        Err(pn) => {
            ub_violation(acc, idx, name, &pn, format!("{n}^3 special-float pixels, transfer {t:?}, primaries {p:?}"), json!({"kind":"c07special","op":c.0,"ti":c.1,"pi":c.2}));
        }
    }
}

// ---- staging ------------------------------------------------------------------------------------

fn small(tier: Tier) -> Vec<FSpec> {
    small_box(tier.pick(4, 6))
}

pub fn staged(tier: Tier) -> Staged {
    let npat: u64 = match tier {
        Tier::Quick => quick_patterns().len() as u64,
        Tier::Thorough => 1u64 << 32,
    };
    Staged {
        property: "C07",
        stages: vec![
            ("geometry small box".into(), small(tier).len() as u64),
            ("geometry deviations".into(), bases(tier == Tier::Thorough).len() as u64 * SLOTS),
            ("encode geometry".into(), enc_cases(tier).len() as u64),
            ("every float into every curve".into(), 26 * npat),
            ("special floats through every conversion".into(), special_cases().len() as u64),
        ],
        run: run_stage,
        case_of,
    }
}

fn run_stage(tier: Tier, stage: usize, lo: u64, hi: u64) -> Acc {
    let n = hi - lo;
    match stage {
        0 => {
            let sb = small(tier);
            par_chunks(n, 256, |acc, a, b| {
                for i in lo + a..lo + b {
                    decode_dyn(acc, i, &sb[i as usize]);
                }
                if lo + a == 0 {
                    acc.sample(json!({"stage":"geometry small box","spec":sb[0].json()}));
                }
            })
        }
        1 => {
            let bs = bases(tier == Tier::Thorough);
            par_chunks(n, SLOTS, |acc, a, b| {
                for i in lo + a..lo + b {
                    if let Some(s) = dev_spec(&bs, i) {
                        decode_dyn(acc, i, &s);
                    }
                }
            })
        }
        2 => {
            let cs = enc_cases(tier);
            par_chunks(n, 64, |acc, a, b| {
                for i in lo + a..lo + b {
                    encode_case(acc, i, &cs[i as usize]);
                }
            })
        }
        3 => {
            let pats = if tier == Tier::Quick { Some(quick_patterns()) } else { None };
            let npat = pats.as_ref().map(|p| p.len() as u64).unwrap_or(1u64 << 32);
            // chunks must not straddle a (curve, direction) block
            let chunk = 3u64 << 14;
            let mut ranges = vec![];
            let mut x = lo;
            while x < hi {
                let block_end = (x / npat + 1) * npat;
                let e = (x + chunk).min(hi).min(block_end);
                ranges.push((x, e));
                x = e;
            }
            par_chunks(ranges.len() as u64, 1, |acc, a, _| {
                let (s, e) = ranges[a as usize];
                curve_range(acc, pats.as_deref(), npat, s, e);
                if s == 0 {
                    acc.sample(json!({"stage":"every float into every curve","tc":"BT1886","dir":"to_linear","first_bits":0,"patterns_per_curve_and_direction":npat}));
                }
            })
        }
        _ => {
            let cs = special_cases();
            par_chunks(n, 1, |acc, a, _| special_case(acc, lo + a, cs[(lo + a) as usize]))
        }
    }
}

fn case_of(tier: Tier, stage: usize, i: u64) -> Value {
    match stage {
        0 => json!({"kind":"c07geom","spec":small(tier)[i as usize].json()}),
        1 => match dev_spec(&bases(tier == Tier::Thorough), i) {
            Some(s) => json!({"kind":"c07geom","spec":s.json()}),
            None => json!({"kind":"c07geom","spec":null}),
        },
        2 => enc_json(&enc_cases(tier)[i as usize]),
        3 => {
            let (npat, bits) = match tier {
                Tier::Quick => {
                    let p = quick_patterns();
                    (p.len() as u64, p[(i % p.len() as u64) as usize])
                }
                Tier::Thorough => (1u64 << 32, (i % (1u64 << 32)) as u32),
            };
            let cd = (i / npat) as usize;
            json!({"kind":"c07curve","tc":format!("{:?}", CURVES13[cd / 2]),"to_gamma":cd % 2 == 1,"x":bits})
        }
        _ => {
            let c = special_cases()[i as usize];
            json!({"kind":"c07special","op":c.0,"ti":c.1,"pi":c.2})
        }
    }
}

pub fn run(tier: Tier) -> Report {
    let mut rep = Report::new("C07");
    let st = staged(tier);
    run_staged(tier, &st, &mut rep);
    rep.bound = format!(
        "stages (each in a child process, hooks armed): {}; geometry = full small box (luma <= {}) plus every well-formed base (luma sizes {:?}) with 0, 1 and 2 deviations; encode geometry = float images {:?}^2 x subsampling 0..=2^2 x u8/u16 x 4 source kinds; curves = {} f32 bit patterns x 13 characteristics x 2 directions; special floats = 12^3 pixel cubes through 14 curves x 11 primaries x 4 composite conversions + XYB + HSL",
        st.stages.iter().map(|(n, t)| format!("{n}: {t} cases")).collect::<Vec<_>>().join("; "),
        tier.pick(4, 6), dev_sizes(tier == Tier::Thorough), enc_sizes(tier),
        match tier { Tier::Quick => format!("{} (low 11 bits zero, all specials, +-64-ulp neighbourhoods of +-0, +-1, +-max, +-inf, +-min normal)", quick_patterns().len()), Tier::Thorough => "ALL 2^32".to_string() }
    );
    rep.exhaustive = false;
    rep.rule = "a violation is a feature-gated assertion firing immediately before an unsafe operation (out-of-bounds plane/buffer index, non-finite or out-of-range value before to_int_unchecked), an accepted frame whose chroma planes cannot cover the luma plane, or the death of the child process (std ub_checks / heap corruption); clean panics are counted, not UB".into();
    rep.assumptions = vec![
        "hooks sit before every unsafe block of yuvxyb and yuvxyb-math (5 sites); the checked profile additionally enables std's own unsafe-precondition checks; Miri replays a sub-box in the thorough tier".into(),
        "frames are built through Plane::new / Plane::from_slice and the public decimation fields".into(),
    ];
    rep.guard_bucket("frame accepted, all conversions run");
    rep.guard_bucket("frame rejected by Yuv::new");
    rep.guard_bucket("float into curve: no unsafe precondition violated");
    rep.guard_bucket("special-float image converted: no unsafe precondition violated");
    rep.guard_bucket("encode: dims fit subsampling, Ok");
    rep
}

/// The sub-box that is replayed under Miri (thorough tier): single-threaded, a few thousand
/// executions. Miri also sees UB classes no hook covers (aliasing, uninitialised reads, the
/// from_raw_parts_mut flattening, to_int_unchecked preconditions).
pub fn miri_box() -> Acc {
    let mut acc = Acc::default();
    // geometry: luma <= 3x3, full product restricted to padding {0,1}, plus every single deviation
    let mut idx = 0u64;
    // Under the interpreter every frame costs milliseconds: run the frames the reference predicate
    // accepts (they reach the unsafe indexing) and every 97th rejected one (constructor only).
    let wanted = |s: &FSpec, k: usize| -> bool {
        if !s.buildable() {
            return false;
        }
        geometry_ok(s) || k % 97 == 0
    };
    for (k, s) in small_box(3).into_iter().enumerate() {
        if s.p[0].xpad == 17 || !wanted(&s, k) {
            continue;
        }
        decode_dyn(&mut acc, idx, &s);
        idx += 1;
    }
    let mut k = 0;
    for b in bases(false).into_iter().filter(|b| b.p[0].w <= 4 && b.p[0].h <= 4 && b.p[0].xpad <= 1 && b.depth != 16) {
        for d in deviations(&b) {
            let mut s = b;
            apply(&mut s, d);
            k += 1;
            if matches!(d, Dev::Pad(_, 17, 17)) || !wanted(&s, k) {
                continue;
            }
            decode_dyn(&mut acc, idx, &s);
            idx += 1;
        }
    }
    for e in enc_cases(Tier::Quick).into_iter().filter(|e| e.w <= 4 && e.h <= 4 && (e.src != 1 || e.depth != 0)) {
        encode_case(&mut acc, idx, &e);
        idx += 1;
    }
    // every special value into every curve, both directions
    let sp: Vec<u32> = super::c18::specials().iter().map(|x| x.to_bits()).collect();
    for cd in 0..26u64 {
        curve_range(&mut acc, Some(&sp), sp.len() as u64, cd * sp.len() as u64, (cd + 1) * sp.len() as u64);
    }
    // direct helper calls
    for &x in super::c18::specials().iter() {
        let _ = guarded(|| yuvxyb_math::cbrtf(x));
        let _ = guarded(|| yuvxyb_math::expf(x));
        for &y in super::c18::specials().iter() {
            let _ = guarded(|| yuvxyb_math::powf(x, y));
        }
        acc.transitions += 52;
    }
    // special-float images through a covering subset of the composite conversions
    for (i, c) in special_cases().into_iter().enumerate() {
        if i % 37 == 0 || c.0 >= 4 {
            special_case_n(&mut acc, idx, c, 4);
            idx += 1;
        }
    }
    acc
}

pub fn replay(case: &Value) -> (bool, String) {
    let mut acc = Acc::default();
    match case["kind"].as_str().unwrap() {
        "c07geom" => decode_dyn(&mut acc, 0, &FSpec::from_json(&case["spec"])),
        "c07enc" => encode_case(
            &mut acc,
            0,
            &Enc {
                w: case["w"].as_u64().unwrap() as usize,
                h: case["h"].as_u64().unwrap() as usize,
                ss: (case["ss"][0].as_u64().unwrap() as u8, case["ss"][1].as_u64().unwrap() as u8),
                wide: case["u16"].as_bool().unwrap(),
                src: case["src"].as_u64().unwrap() as u8,
                depth: case["depth"].as_u64().unwrap_or(0) as u8,
            },
        ),
        "c07curve" => {
            let t = tc_from_name(case["tc"].as_str().unwrap());
            let cd = CURVES13.iter().position(|c| *c == t).unwrap() as u64 * 2 + case["to_gamma"].as_bool().unwrap() as u64;
            let bits = [case["x"].as_u64().unwrap() as u32];
            curve_range(&mut acc, Some(&bits), 1, cd, cd + 1);
        }
        _ => special_case(&mut acc, 0, (case["op"].as_u64().unwrap() as u8, case["ti"].as_u64().unwrap() as usize, case["pi"].as_u64().unwrap() as usize)),
    }
    match acc.viols.values().next() {
        Some(v) => (true, format!("{} :: {}", v.key, v.detail)),
        None => (false, format!("ok {:?}", acc.buckets)),
    }
}
