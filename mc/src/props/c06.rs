//! C06 — primaries conversion equals the CIE derivation and keeps white white.

use crate::explore::*;
use crate::refmodel::*;
use serde_json::{json, Value};
use yuvxyb::{ColorPrimaries as CP, LinearRgb, Rgb, TransferCharacteristic as TC};

/// P -> BT709 (`to709 = true`) or BT709 -> P through the public API with transfer = Linear.
pub fn convert(p: CP, to709: bool, px: &[[f32; 3]]) -> Result<Vec<[f32; 3]>, String> {
    let len = px.len();
    let (w, h) = crate::img::shape_of(len);
    if to709 {
        let rgb = Rgb::new(px.to_vec(), w, h, TC::Linear, p).map_err(|e| format!("{e:?}"))?;
        let lin = guarded(|| LinearRgb::try_from(rgb))?.map_err(|e| format!("conversion error {e:?}"))?;
        if lin.width() != w || lin.height() != h {
            return Err("dims changed".into());
        }
        Ok(lin.data().to_vec())
    } else {
        let lin = LinearRgb::new(px.to_vec(), w, h).map_err(|e| format!("{e:?}"))?;
        let rgb = guarded(|| Rgb::try_from((lin, TC::Linear, p)))?.map_err(|e| format!("conversion error {e:?}"))?;
        if rgb.width() != w || rgb.height() != h || rgb.primaries() != p || rgb.transfer() != TC::Linear {
            return Err("dims or labels changed".into());
        }
        Ok(rgb.data().to_vec())
    }
}

fn dir(to709: bool) -> &'static str {
    if to709 {
        "P->BT709"
    } else {
        "BT709->P"
    }
}

fn norm(p: [f32; 3]) -> f64 {
    ((p[0] as f64).powi(2) + (p[1] as f64).powi(2) + (p[2] as f64).powi(2)).sqrt()
}

fn check(acc: &mut Acc, p: CP, to709: bool, base: u64, px: &[[f32; 3]]) {
    let mk = |v: [f32; 3]| json!({"kind":"c06","primaries":format!("{p:?}"),"to709":to709,"rgb":px3j(v)});
    acc.states += px.len() as u64;
    acc.transitions += 3 * px.len() as u64;
    let out = match convert(p, to709, px) {
        Ok(o) => o,
        Err(e) => {
            acc.violation(base, format!("primaries-failed p={p:?} dir={} {}", dir(to709), panic_site(&e)), e, mk(px[0]));
            return;
        }
    };
    if p == CP::BT709 {
        for i in 0..px.len() {
            if (0..3).any(|k| out[i][k].to_bits() != px[i][k].to_bits()) {
                acc.violation(base + i as u64, format!("identity-not-bit-exact dir={}", dir(to709)), format!("{} -> {}", px3s(px[i]), px3s(out[i])), mk(px[i]));
                return;
            }
        }
        acc.bucket("same primaries: bit-exact identity", px.len() as u64);
        return;
    }
    let m = if to709 { primaries_matrix(p, CP::BT709) } else { primaries_matrix(CP::BT709, p) }.unwrap();
    let back = match convert(p, !to709, &out) {
        Ok(o) => o,
        Err(e) => {
            acc.violation(base, format!("primaries-failed p={p:?} dir={} {}", dir(!to709), panic_site(&e)), e, mk(px[0]));
            return;
        }
    };
    let mut worst = 0.0;
    let mut wp = px[0];
    for i in 0..px.len() {
        let v = px[i];
        let exp = m3_vec(&m, [v[0] as f64, v[1] as f64, v[2] as f64]);
        let tol = 1e-5 * norm(v).max(1.0);
        let mut e = 0.0f64;
        let mut eb = 0.0f64;
        for k in 0..3 {
            let d = (out[i][k] as f64 - exp[k]).abs();
            e = if d.is_nan() { f64::INFINITY } else { e.max(d) };
            let d = (back[i][k] as f64 - v[k] as f64).abs();
            eb = if d.is_nan() { f64::INFINITY } else { eb.max(d) };
        }
        if e / tol > worst {
            worst = e / tol;
            wp = v;
        }
        if e > tol {
            acc.violation(
                base + i as u64,
                format!("primaries-mismatch p={p:?} dir={}", dir(to709)),
                format!("{} -> {}, CIE derivation gives [{:.8}, {:.8}, {:.8}]: error {e:.3e} > {tol:.3e}", px3s(v), px3s(out[i]), exp[0], exp[1], exp[2]),
                mk(v),
            );
            acc.bucket("mismatch", 1);
            return;
        }
        if eb > tol {
            acc.violation(
                base + i as u64,
                format!("primaries-there-and-back p={p:?} first={}", dir(to709)),
                format!("{} -> {} -> {}: error {eb:.3e} > {tol:.3e}", px3s(v), px3s(out[i]), px3s(back[i])),
                mk(v),
            );
            acc.bucket("mismatch", 1);
            return;
        }
    }
    acc.bucket("matches derivation and returns", px.len() as u64);
    acc.worst(&format!("err/tol {p:?} {}", dir(to709)), worst, || mk(wp));
}

fn pxs_json(it: &[[f32; 3]]) -> Value {
    json!(it.iter().map(|p| px3j(*p)).collect::<Vec<_>>())
}
fn pxs_from(v: &Value) -> Vec<[f32; 3]> {
    v.as_array().unwrap().iter().map(px3_from).collect()
}

pub fn run(tier: Tier) -> Report {
    let mut rep = Report::new("C06");
    let steps: u64 = tier.pick(if light() { 25 } else { 50 }, 500);
    let g: Vec<f32> = (0..=steps).map(|i| (-0.5 + 2.5 * i as f64 / steps as f64) as f32).collect();
    let gl = g.len() as u64;
    let total = gl * gl * gl;
    let mut base = 0;
    for &p in SUPPORTED_PRIMARIES.iter() {
        for to709 in [true, false] {
            // basis vectors, white, greys first
            let mut special: Vec<[f32; 3]> = vec![[1.0, 0.0, 0.0], [0.0, 1.0, 0.0], [0.0, 0.0, 1.0], [1.0, 1.0, 1.0], [0.0; 3]];
            for k in 1..=20 {
                special.push([k as f32 / 10.0; 3]);
            }
            // signed zeros and subnormals are values of [-0.5,2] too (bit-exactness for equal primaries)
            special.extend([[-0.0, 0.0, -0.0], [0.5, -0.0, 1.0], [f32::from_bits(1), -f32::from_bits(1), f32::MIN_POSITIVE]]);
            let mut acc = Acc::default();
            check(&mut acc, p, to709, base, &special);
            // white stays white within 1e-5 (flat)
            if let Ok(o) = convert(p, to709, &[[1.0, 1.0, 1.0]]) {
                let e = (0..3).map(|k| (o[0][k] as f64 - 1.0).abs()).fold(0.0, f64::max);
                acc.worst("white error (flat 1e-5 budget)", e, || json!({"primaries":format!("{p:?}"),"to709":to709}));
                if !(e <= 1e-5) {
                    acc.violation(base, format!("white-not-preserved p={p:?} dir={}", dir(to709)), format!("(1,1,1) -> {}", px3s(o[0])),
                        json!({"kind":"c06","primaries":format!("{p:?}"),"to709":to709,"rgb":px3j([1.0,1.0,1.0])}));
                } else {
                    acc.bucket("white preserved", 1);
                }
            }
            rep.acc.merge(acc);
            base += special.len() as u64;
            let acc = par_chunks_varied(total, 1 << 14, |acc, lo, hi| {
                let px: Vec<[f32; 3]> = (lo..hi).map(|i| [g[(i / (gl * gl)) as usize], g[((i / gl) % gl) as usize], g[(i % gl) as usize]]).collect();
                check(acc, p, to709, base + lo, &px);
                crate::img::echo_check(acc, base + lo, "primaries conversion", &px, &|q| convert(p, to709, q), "c06echo", &json!({"primaries":format!("{p:?}"),"to709":to709}));
                crate::img::refine_violations(acc, base + lo, &px, 1, &|a, it| check(a, p, to709, 0, it), &pxs_json);
                if lo == 0 && p == CP::P3DCI {
                    acc.sample(json!({"primaries":"P3DCI","dir":dir(to709),"rgb":px3s(px[px.len()/2])}));
                }
            });
            rep.acc.merge(acc);
            base += total;
            for &big in BIG_SIZES.iter() {
                let px: Vec<[f32; 3]> = (0..big as u64).map(|k| { let i = (k * 7919) % total; [g[(i / (gl * gl)) as usize], g[((i / gl) % gl) as usize], g[(i % gl) as usize]] }).collect();
                let mut acc = Acc::default();
                check(&mut acc, p, to709, base, &px);
                crate::img::refine_violations(&mut acc, base, &px, 1, &|a, it| check(a, p, to709, 0, it), &pxs_json);
                rep.acc.merge(acc);
            }
        }
    }
    rep.bound = format!("11 supported primaries x 2 directions x [ full product lattice on [-0.5,2]^3 with step {} = {total} pixels; basis vectors, white, 20 greys ]", 2.5 / steps as f64);
    rep.rule = "LinearRgb::try_from(Rgb{Linear,P}) and Rgb::try_from((LinearRgb,Linear,P)) on every pixel vs f64 M_out^-1 * Bradford * M_in from the H.273 chromaticities (error <= 1e-5*max(1,|v|_2)); white -> white within 1e-5; there and back within 1e-5*max(1,|v|_2); P = BT709 bit-exact".into();
    rep.assumptions = vec!["the map is linear: basis vectors determine it, the lattice bounds the rounding".into()];
    rep.guard_bucket("matches derivation and returns");
    rep.guard_bucket("same primaries: bit-exact identity");
    rep.guard("white preserved for 22 directed pairs", rep.acc.buckets.get("white preserved").copied().unwrap_or(0) == 22);
    rep
}

pub fn replay(case: &Value) -> (bool, String) {
    let p = cp_from_name(case["primaries"].as_str().unwrap());
    let to709 = case["to709"].as_bool().unwrap();
    if case["kind"] == "c06echo" {
        return crate::img::echo_replay(case, &|q| convert(p, to709, q));
    }
    let v = px3_from(&case["rgb"]);
    let mut acc = Acc::default();
    let (items, shape) = crate::img::replay_items(case, vec![v], &pxs_from);
    crate::img::with_shape(shape, || check(&mut acc, p, to709, 0, &items));
    if v == [1.0, 1.0, 1.0] {
        if let Ok(o) = convert(p, to709, &[v]) {
            let e = (0..3).map(|k| (o[0][k] as f64 - 1.0).abs()).fold(0.0, f64::max);
            if !(e <= 1e-5) {
                acc.violation(0, format!("white-not-preserved p={p:?} dir={}", dir(to709)), format!("(1,1,1) -> {}", px3s(o[0])), json!({}));
            }
        }
    }
    match acc.viols.values().next() {
        Some(v) => (true, format!("{} :: {}", v.key, v.detail)),
        None => (false, "ok".into()),
    }
}
