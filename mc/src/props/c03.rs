//! C03 — transfer characteristics follow their defining curves in both directions.
//! C10 — gamma->linear->gamma is the identity within half a 10-bit step. (shares the domain)

use crate::explore::*;
use crate::refmodel::*;
use serde_json::{json, Value};
use yuvxyb::{ColorPrimaries as CP, LinearRgb, Rgb, TransferCharacteristic as TC};

pub const ONE_BITS: u32 = 0x3F80_0000;

fn pack(xs: &[f32]) -> Vec<[f32; 3]> {
    let mut v = Vec::with_capacity((xs.len() + 2) / 3);
    for c in xs.chunks(3) {
        v.push([c[0], *c.get(1).unwrap_or(&0.0), *c.get(2).unwrap_or(&0.0)]);
    }
    v
}
fn unpack(px: &[[f32; 3]], n: usize) -> Vec<f32> {
    let mut v = Vec::with_capacity(n);
    for p in px {
        v.extend_from_slice(p);
    }
    v.truncate(n);
    v
}

/// gamma -> linear through the public API (primaries BT709 on both sides = identity stage).
pub fn to_linear(t: TC, xs: &[f32]) -> Result<Vec<f32>, String> {
    let px = pack(xs);
    let len = px.len();
    let (w, h) = crate::img::shape_of(len);
    let rgb = Rgb::new(px, w, h, t, CP::BT709).map_err(|e| format!("{e:?}"))?;
    let lin = guarded(|| LinearRgb::try_from(rgb))?.map_err(|e| format!("conversion error {e:?}"))?;
    if lin.width() != w || lin.height() != h {
        return Err("dims changed".into());
    }
    Ok(unpack(lin.data(), xs.len()))
}
/// linear -> gamma through the public API.
pub fn to_gamma(t: TC, xs: &[f32]) -> Result<Vec<f32>, String> {
    let px = pack(xs);
    let len = px.len();
    let (w, h) = crate::img::shape_of(len);
    let lin = LinearRgb::new(px, w, h).map_err(|e| format!("{e:?}"))?;
    let rgb = guarded(|| Rgb::try_from((lin, t, CP::BT709)))?.map_err(|e| format!("conversion error {e:?}"))?;
    if rgb.width() != w || rgb.height() != h || rgb.transfer() != t || rgb.primaries() != CP::BT709 {
        return Err("dims or labels changed".into());
    }
    Ok(unpack(rgb.data(), xs.len()))
}

/// Pixel-level conversion (no packing): gamma -> linear (`g == false`) or linear -> gamma.
pub fn conv_px(t: TC, g: bool, px: &[[f32; 3]]) -> Result<Vec<[f32; 3]>, String> {
    let len = px.len();
    let (w, h) = crate::img::shape_of(len);
    if g {
        let lin = LinearRgb::new(px.to_vec(), w, h).map_err(|e| format!("{e:?}"))?;
        let rgb = guarded(|| Rgb::try_from((lin, t, CP::BT709)))?.map_err(|e| format!("conversion error {e:?}"))?;
        Ok(rgb.data().to_vec())
    } else {
        let rgb = Rgb::new(px.to_vec(), w, h, t, CP::BT709).map_err(|e| format!("{e:?}"))?;
        let lin = guarded(|| LinearRgb::try_from(rgb))?.map_err(|e| format!("conversion error {e:?}"))?;
        Ok(lin.data().to_vec())
    }
}

/// Grey pixels through the same conversion with OTHER primaries of the same white point: the
/// primaries stage maps grey to grey (to a few ulps), so the result is still the curve's.
fn conv_grey_p(t: TC, g: bool, xs: &[f32], p: CP) -> Result<Vec<[f32; 3]>, String> {
    let px: Vec<[f32; 3]> = xs.iter().map(|&x| [x; 3]).collect();
    let (w, h) = crate::img::shape_of(px.len());
    if g {
        let lin = LinearRgb::new(px, w, h).map_err(|e| format!("{e:?}"))?;
        let rgb = guarded(|| Rgb::try_from((lin, t, p)))?.map_err(|e| format!("conversion error {e:?}"))?;
        Ok(rgb.data().to_vec())
    } else {
        let rgb = Rgb::new(px, w, h, t, p).map_err(|e| format!("{e:?}"))?;
        let lin = guarded(|| LinearRgb::try_from(rgb))?.map_err(|e| format!("conversion error {e:?}"))?;
        Ok(lin.data().to_vec())
    }
}

fn check_grey_other_primaries(acc: &mut Acc, t: TC, g: bool, base: u64, xs: &[f32]) {
    let mk = |x: f32, p: CP| json!({"kind":"c03grey","tc":format!("{t:?}"),"to_gamma":g,"x":x.to_bits(),"primaries":format!("{p:?}")});
    let budget = tc_budget(t, g);
    for p in [CP::BT2020, CP::P3Display] {
        acc.transitions += xs.len() as u64;
        match conv_grey_p(t, g, xs, p) {
            Ok(out) => {
                for (i, &x) in xs.iter().enumerate() {
                    let exp = if g { tc_to_gamma(t, x as f64) } else { tc_to_linear(t, x as f64) }.unwrap();
                    for k in 0..3 {
                        // the grey may have moved by a few ulps in the primaries stage: 1e-6 of slack
                        let e = (out[i][k] as f64 - exp).abs();
                        if !(e < budget + 1e-6) {
                            acc.violation(base + i as u64, format!("curve-mismatch tc={t:?} dir={} (grey, primaries {p:?})", dir_name(g)), format!("grey x={x:e} (bits {:#x}) with primaries {p:?} -> component {k} = {:e}, definition gives {exp:.9e}: error {e:.3e} >= {budget:e}", x.to_bits(), out[i][k]), mk(x, p));
                            return;
                        }
                    }
                }
            }
            Err(e) => {
                acc.violation(base, format!("curve-failed tc={t:?} dir={} {}", dir_name(g), panic_site(&e)), e, mk(xs[0], p));
                return;
            }
        }
    }
    acc.states += xs.len() as u64;
    acc.bucket("greys with other D65 primaries: within budget", xs.len() as u64);
}

/// The curves are supposed to act on each component independently of the other two. The packed
/// evaluation above puts three *neighbouring* values into one pixel; these two layouts put each
/// value next to zeros (a dark saturated pixel) and next to two distant values.
/// Returns (value, output) pairs that the caller compares with the oracle, or a violation text.
fn independent_layouts(t: TC, g: bool, xs: &[f32]) -> Result<Vec<(f32, f32)>, (usize, String)> {
    let n = xs.len();
    let z0 = conv_px(t, g, &[[0.0; 3]]).map_err(|e| (0, e))?[0][0];
    // (x,0,0), (0,x,0), (0,0,x) in turn
    let placed: Vec<[f32; 3]> = xs.iter().enumerate().map(|(i, &x)| { let mut p = [0.0f32; 3]; p[i % 3] = x; p }).collect();
    let out = conv_px(t, g, &placed).map_err(|e| (0, e))?;
    let mut pairs = Vec::with_capacity(4 * n);
    for i in 0..n {
        for k in 0..3 {
            if k == i % 3 {
                pairs.push((xs[i], out[i][k]));
            } else if out[i][k].to_bits() != z0.to_bits() {
                return Err((i, format!("component {k} of the pixel with {:e} in slot {} and zeros elsewhere came out as {:e}; a zero alone gives {:e}", xs[i], i % 3, out[i][k], z0)));
            }
        }
    }
    // the same placed pixels with out-of-range / special pixels in between: a sample in [0,1] must
    // convert the same whatever else the image holds
    let specials: [[f32; 3]; 4] = [[-0.3, 1.7, 2.5], [1e30, -1e30, 0.0], [f32::NAN, 0.5, f32::INFINITY], [-0.0, 0.0, 1e-40]];
    let mut mixed = Vec::with_capacity(n + n / 4 + 1);
    let mut pos = Vec::with_capacity(n);
    for i in 0..n {
        if i % 4 == 1 {
            mixed.push(specials[(i / 4) % 4]);
        }
        pos.push(mixed.len());
        mixed.push(placed[i]);
    }
    let out_m = conv_px(t, g, &mixed).map_err(|e| (0, e))?;
    for i in 0..n {
        let (a, b) = (out_m[pos[i]], out[i]);
        if (0..3).any(|k| a[k].to_bits() != b[k].to_bits()) {
            return Err((i, format!("the pixel with {:e} in slot {} converts to {} in an image that also holds out-of-range / special pixels, but to {} without them", xs[i], i % 3, px3s(a), px3s(b))));
        }
    }
    // the value in one slot, out-of-range values in the two other slots of the SAME pixel: the curve of
    // a component must not be chosen by what its neighbours in the pixel look like
    let comp: [[f32; 2]; 3] = [[-0.5, 2.0], [1.5, -0.25], [-1e-3, 1.0 + 1e-3]];
    let with_oor: Vec<[f32; 3]> = xs.iter().enumerate().map(|(i, &x)| { let c = comp[(i / 3) % 3]; let mut p = [c[0], c[1], c[0]]; p[(i + 1) % 3] = c[1]; p[i % 3] = x; p }).collect();
    let out_o = conv_px(t, g, &with_oor).map_err(|e| (0, e))?;
    for i in 0..n {
        if out_o[i][i % 3].to_bits() != out[i][i % 3].to_bits() {
            return Err((i, format!("{:e} in slot {} converts to {:e} next to out-of-range components {:?} in the same pixel, but to {:e} next to zeros", xs[i], i % 3, out_o[i][i % 3], with_oor[i], out[i][i % 3])));
        }
    }
    // three distant values per pixel
    let distant: Vec<[f32; 3]> = (0..n).map(|i| [xs[i], xs[(i + n / 3) % n], xs[(i + 2 * n / 3) % n]]).collect();
    let out = conv_px(t, g, &distant).map_err(|e| (0, e))?;
    for i in 0..n {
        for k in 0..3 {
            pairs.push((distant[i][k], out[i][k]));
        }
    }
    Ok(pairs)
}

pub const DISTINCT: [TC; 9] = [
    TC::BT1886,
    TC::BT470M,
    TC::BT470BG,
    TC::SRGB,
    TC::XVYCC,
    TC::Logarithmic100,
    TC::Logarithmic316,
    TC::PerceptualQuantizer,
    TC::HybridLogGamma,
];
pub const ALIASES: [TC; 4] = [TC::ST170M, TC::ST240M, TC::BT2020Ten, TC::BT2020Twelve];

fn thresholds() -> Vec<f32> {
    vec![0.04045, 0.0031308, 0.018, 0.081, 0.5, 1.0 / 12.0, 0.01, 0.003_162_277_6, 0.0, 1.0, 0.018_053_97, 0.003_041_282_5, 0.039_293_37]
}

/// Quick stratum: every f32 in [0,1] whose low 6 mantissa bits are zero (every binade incl.
/// subnormals) plus +-256-ulp neighbourhoods of 0, 1 and every branch threshold.
pub fn quick_domain() -> Vec<u32> {
    let sh = if light() { 12 } else { 6 };
    let mut v: Vec<u32> = (0..=ONE_BITS >> sh).map(|i| i << sh).collect();
    for t in thresholds() {
        let b = t.to_bits() as i64;
        for d in -256i64..=256 {
            let x = b + d;
            if x >= 0 && x <= ONE_BITS as i64 {
                v.push(x as u32);
            }
        }
    }
    v.sort_unstable();
    v.dedup();
    v.push(0x8000_0000); // -0.0 is a component value in [0,1] too
    v
}

pub enum Dom {
    List(Vec<u32>),
    AllF01,
}
impl Dom {
    pub fn for_tier(tier: Tier) -> Dom {
        match tier {
            Tier::Quick => Dom::List(quick_domain()),
            Tier::Thorough => Dom::AllF01,
        }
    }
    pub fn len(&self) -> u64 {
        match self {
            Dom::List(v) => v.len() as u64,
            Dom::AllF01 => ONE_BITS as u64 + 2,
        }
    }
    pub fn slice(&self, lo: u64, hi: u64) -> Vec<f32> {
        match self {
            Dom::List(v) => v[lo as usize..hi as usize].iter().map(|&b| f32::from_bits(b)).collect(),
            // index ONE_BITS + 1 stands for -0.0
            Dom::AllF01 => (lo..hi).map(|b| if b > ONE_BITS as u64 { -0.0f32 } else { f32::from_bits(b as u32) }).collect(),
        }
    }
    pub fn describe(&self) -> String {
        match self {
            Dom::List(v) => format!("{} f32 values of [0,1]: all with low 6 mantissa bits zero (every binade, subnormals included) plus +-256-ulp neighbourhoods of 0, 1 and 11 branch thresholds, and -0.0", v.len()),
            Dom::AllF01 => "all 1,065,353,217 f32 values in [0,1] and -0.0".into(),
        }
    }
}

fn dir_name(g: bool) -> &'static str {
    if g {
        "linear->gamma"
    } else {
        "gamma->linear"
    }
}

fn check_curve(acc: &mut Acc, t: TC, g: bool, base: u64, xs: &[f32]) {
    let mk = |x: f32| json!({"kind":"c03","tc":format!("{t:?}"),"to_gamma":g,"x":x.to_bits()});
    acc.states += xs.len() as u64;
    acc.transitions += xs.len() as u64;
    let out = match if g { to_gamma(t, xs) } else { to_linear(t, xs) } {
        Ok(o) => o,
        Err(e) => {
            acc.violation(base, format!("curve-failed tc={t:?} dir={} {}", dir_name(g), panic_site(&e)), e, mk(xs[0]));
            return;
        }
    };
    let budget = tc_budget(t, g);
    let mut worst = 0.0;
    let mut wx = xs[0];
    for (i, (&x, &y)) in xs.iter().zip(out.iter()).enumerate() {
        let exp = if g { tc_to_gamma(t, x as f64) } else { tc_to_linear(t, x as f64) }.unwrap();
        let e = (y as f64 - exp).abs();
        if e > worst {
            worst = e;
            wx = x;
        }
        if !(e < budget) {
            acc.violation(
                base + i as u64,
                format!("curve-mismatch tc={t:?} dir={}", dir_name(g)),
                format!("x={x:e} (bits {:#x}) -> {y:e}, definition gives {exp:.9e}: error {e:.3e} >= {budget:e}", x.to_bits()),
                mk(x),
            );
            acc.bucket("mismatch", 1);
            return;
        }
    }
    acc.bucket("within budget", xs.len() as u64);
    acc.worst(&format!("abs_err/budget {t:?} {}", dir_name(g)), worst / budget, || mk(wx));
    // component independence: the same values next to zeros and next to distant values
    acc.transitions += 2 * xs.len() as u64;
    match independent_layouts(t, g, xs) {
        Ok(pairs) => {
            for (x, y) in pairs {
                let exp = if g { tc_to_gamma(t, x as f64) } else { tc_to_linear(t, x as f64) }.unwrap();
                let e = (y as f64 - exp).abs();
                if !(e < budget) {
                    acc.violation(
                        base,
                        format!("curve-mismatch tc={t:?} dir={} (component not independent of its neighbours)", dir_name(g)),
                        format!("x={x:e} (bits {:#x}) next to other component values -> {y:e}, definition gives {exp:.9e}: error {e:.3e} >= {budget:e}", x.to_bits()),
                        mk(x),
                    );
                    return;
                }
            }
            acc.bucket("same values next to zeros / distant values: within budget", xs.len() as u64);
        }
        Err((i, e)) => {
            acc.violation(base + i as u64, format!("curve-mismatch tc={t:?} dir={} (component not independent of its neighbours)", dir_name(g)), e, mk(xs[i.min(xs.len() - 1)]));
        }
    }
}

fn check_alias(acc: &mut Acc, alias: TC, g: bool, base: u64, xs: &[f32]) {
    let mk = |x: f32| json!({"kind":"c03alias","tc":format!("{alias:?}"),"to_gamma":g,"x":x.to_bits()});
    acc.states += xs.len() as u64;
    acc.transitions += 2 * xs.len() as u64;
    let f = |t: TC| if g { to_gamma(t, xs) } else { to_linear(t, xs) };
    match (f(TC::BT1886), f(alias)) {
        (Ok(a), Ok(b)) => {
            for i in 0..xs.len() {
                if a[i].to_bits() != b[i].to_bits() {
                    acc.violation(
                        base + i as u64,
                        format!("alias-differs tc={alias:?} dir={}", dir_name(g)),
                        format!("x={:e}: BT1886 gives {:e}, {alias:?} gives {:e}", xs[i], a[i], b[i]),
                        mk(xs[i]),
                    );
                    return;
                }
            }
            acc.bucket("alias bit-identical", xs.len() as u64);
        }
        (a, b) => {
            let e = a.err().or(b.err()).unwrap();
            acc.violation(base, format!("curve-failed tc={alias:?} dir={} {}", dir_name(g), panic_site(&e)), e, mk(xs[0]));
        }
    }
}

fn check_linear(acc: &mut Acc, g: bool, base: u64, xs: &[f32]) {
    let mk = |x: f32| json!({"kind":"c03linear","to_gamma":g,"x":x.to_bits()});
    acc.states += xs.len() as u64;
    acc.transitions += xs.len() as u64;
    match if g { to_gamma(TC::Linear, xs) } else { to_linear(TC::Linear, xs) } {
        Ok(o) => {
            for i in 0..xs.len() {
                if o[i].to_bits() != xs[i].to_bits() {
                    acc.violation(
                        base + i as u64,
                        format!("linear-not-identity dir={}", dir_name(g)),
                        format!("x={:e} (bits {:#x}) -> {:e} (bits {:#x})", xs[i], xs[i].to_bits(), o[i], o[i].to_bits()),
                        mk(xs[i]),
                    );
                    return;
                }
            }
            acc.bucket("linear bit-exact identity", xs.len() as u64);
        }
        Err(e) => acc.violation(base, format!("curve-failed tc=Linear dir={} {}", dir_name(g), panic_site(&e)), e, mk(xs[0])),
    }
}

fn f32s_json(it: &[f32]) -> Value {
    json!(it.iter().map(|x| x.to_bits()).collect::<Vec<_>>())
}
fn f32s_from(v: &Value) -> Vec<f32> {
    v.as_array().unwrap().iter().map(|x| f32::from_bits(x.as_u64().unwrap() as u32)).collect()
}

pub fn run(tier: Tier) -> Report {
    let mut rep = Report::new("C03");
    let dom = Dom::for_tier(tier);
    let total = dom.len();
    let chunk = 3 << 14;
    let mut base = 0;
    for g in [false, true] {
        for &t in DISTINCT.iter() {
            let acc = par_chunks_varied(total, chunk, |acc, lo, hi| {
                let xs = dom.slice(lo, hi);
                check_curve(acc, t, g, base + lo, &xs);
                crate::img::refine_violations(acc, base + lo, &xs, 3, &|a, it| check_curve(a, t, g, 0, it), &f32s_json);
                if lo == 0 && t == TC::SRGB {
                    acc.sample(json!({"tc":"SRGB","dir":dir_name(g),"x": format!("{:e}", xs[xs.len()/2]), "definition": if g {tc_to_gamma(t, xs[xs.len()/2] as f64)} else {tc_to_linear(t, xs[xs.len()/2] as f64)}}));
                }
            });
            rep.acc.merge(acc);
            base += total;
            // one large image per curve and direction
            if !light() {
                let big = 3 * BIG_SIZES[1] as u64;
                let xs: Vec<f32> = (0..big).map(|k| dom.slice((k * 7919) % total, (k * 7919) % total + 1)[0]).collect();
                let mut acc = Acc::default();
                check_curve(&mut acc, t, g, base, &xs);
                crate::img::refine_violations(&mut acc, base, &xs, 3, &|a, it| check_curve(a, t, g, 0, it), &f32s_json);
                rep.acc.merge(acc);
            }
        }
        for &t in ALIASES.iter() {
            let acc = par_chunks_varied(total, chunk, |acc, lo, hi| {
                let xs = dom.slice(lo, hi);
                check_alias(acc, t, g, base + lo, &xs);
                crate::img::refine_violations(acc, base + lo, &xs, 3, &|a, it| check_alias(a, t, g, 0, it), &f32s_json);
            });
            rep.acc.merge(acc);
            base += total;
        }
        let acc = par_chunks_varied(total, chunk, |acc, lo, hi| {
            let xs = dom.slice(lo, hi);
            check_linear(acc, g, base + lo, &xs);
            crate::img::refine_violations(acc, base + lo, &xs, 3, &|a, it| check_linear(a, g, 0, it), &f32s_json);
        });
        rep.acc.merge(acc);
        base += total;
    }
    // position independence at the branch points: a curve evaluated in blocks (SIMD, unrolled, banded)
    // with a separate tail may treat a value that sits exactly on a branch threshold differently in the
    // block and in the tail - both results inside the budget, but not the same. Every value within
    // 256 ulps of 0, 1 and each threshold fills a 19-pixel image; all 57 outputs must be bit-identical.
    {
        let mut vals: Vec<u32> = vec![];
        for t in thresholds() {
            let b = t.to_bits() as i64;
            for d in -256i64..=256 {
                let x = b + d;
                if x >= 0 && x <= ONE_BITS as i64 {
                    vals.push(x as u32);
                }
            }
        }
        vals.sort_unstable();
        vals.dedup();
        let curves: Vec<TC> = DISTINCT.iter().chain(ALIASES.iter()).copied().collect();
        let jobs = (curves.len() * 2) as u64;
        let acc = par_chunks(jobs, 1, |acc, lo, _| {
            let (t, g) = (curves[lo as usize / 2], lo % 2 == 1);
            for &b in &vals {
                if !check_positions(acc, t, g, base + lo, f32::from_bits(b)) {
                    return;
                }
            }
            acc.states += vals.len() as u64;
            acc.transitions += vals.len() as u64;
            acc.bucket("threshold neighbourhoods: result independent of the position in the image", vals.len() as u64);
        });
        rep.acc.merge(acc);
    }
    // the same curves reached through a non-trivial primaries stage: greys of every binade (low 10
    // mantissa bits zero) and of the threshold neighbourhoods, with BT.2020 and Display-P3 primaries
    {
        let mut vals: Vec<u32> = (0..=ONE_BITS >> 10).map(|i| i << 10).collect();
        for t in thresholds() {
            let b = t.to_bits() as i64;
            for d in (-256i64..=256).step_by(8) {
                let x = b + d;
                if x >= 0 && x <= ONE_BITS as i64 {
                    vals.push(x as u32);
                }
            }
        }
        vals.sort_unstable();
        vals.dedup();
        let xs: Vec<f32> = vals.iter().map(|&b| f32::from_bits(b)).collect();
        let curves: Vec<TC> = DISTINCT.to_vec();
        let nchunk = (xs.len() as u64 + 8191) / 8192;
        let acc = par_chunks(curves.len() as u64 * 2 * nchunk, 1, |acc, lo, _| {
            let (ci, c) = ((lo / nchunk) as usize, (lo % nchunk) as usize);
            let (t, g) = (curves[ci / 2], ci % 2 == 1);
            let sl = &xs[c * 8192..((c + 1) * 8192).min(xs.len())];
            check_grey_other_primaries(acc, t, g, base + lo, sl);
        });
        rep.acc.merge(acc);
    }
    rep.exhaustive = matches!(dom, Dom::AllF01);
    rep.bound = format!("14 supported characteristics x 2 directions x {}; every value within 256 ulps of a branch threshold also as a uniform 19-pixel image (bit-identical outputs at all 57 positions); greys of every binade through the same curves with BT.2020 and Display-P3 primaries", dom.describe());
    rep.rule = "each x is pushed through the real LinearRgb::try_from(Rgb{t,BT709}) / Rgb::try_from((LinearRgb,t,BT709)) (three values per pixel) and compared with the f64 defining formula (strict < 2.5e-4, PQ linear->gamma < 5.7e-4); aliases must be bit-identical to BT.1886, Linear bit-exact".into();
    rep.assumptions = vec![
        "xvYCC on [0,1] read as the display-referred 2.4 power; PQ scene-referred with BT.2100's own rounded constants (DESIGN §2.3)".into(),
        "the BT709->BT709 primaries stage is the identity (checked bit-exactly by C06 and here by Linear)".into(),
    ];
    rep.guard_bucket("within budget");
    rep.guard_bucket("alias bit-identical");
    rep.guard_bucket("linear bit-exact identity");
    rep.guard_bucket("threshold neighbourhoods: result independent of the position in the image");
    rep.guard_bucket("greys with other D65 primaries: within budget");
    rep
}

/// A 19-pixel image filled with x: all 57 outputs bit-identical. Returns false after a violation.
fn check_positions(acc: &mut Acc, t: TC, g: bool, idx: u64, x: f32) -> bool {
    let px = vec![[x; 3]; 19];
    match crate::img::with_shape((19, 1), || conv_px(t, g, &px)) {
        Ok(o) => {
            let first = o[0][0].to_bits();
            if let Some(i) = (0..57).find(|&i| o[i / 3][i % 3].to_bits() != first) {
                acc.violation(
                    idx,
                    format!("curve-position-dependent tc={t:?} dir={}", dir_name(g)),
                    format!("x={x:e} (bits {:#x}) converts to {:e} in component 0 of pixel 0 and to {:e} in component {} of pixel {} of a uniform 19x1 image", x.to_bits(), o[0][0], o[i / 3][i % 3], i % 3, i / 3),
                    json!({"kind":"c03pos","tc":format!("{t:?}"),"to_gamma":g,"x":x.to_bits()}),
                );
                return false;
            }
            true
        }
        Err(e) => {
            acc.violation(idx, format!("curve-failed tc={t:?} dir={}", dir_name(g)), e, json!({"kind":"c03pos","tc":format!("{t:?}"),"to_gamma":g,"x":x.to_bits()}));
            false
        }
    }
}

pub fn replay(case: &Value) -> (bool, String) {
    let g = case["to_gamma"].as_bool().unwrap();
    let x = f32::from_bits(case["x"].as_u64().unwrap() as u32);
    let mut acc = Acc::default();
    if case["kind"] == "c03grey" {
        check_grey_other_primaries(&mut acc, tc_from_name(case["tc"].as_str().unwrap()), g, 0, &[x]);
        return match acc.viols.values().next() {
            Some(v) => (true, format!("{} :: {}", v.key, v.detail)),
            None => (false, "ok".into()),
        };
    }
    if case["kind"] == "c03pos" {
        check_positions(&mut acc, tc_from_name(case["tc"].as_str().unwrap()), g, 0, x);
        return match acc.viols.values().next() {
            Some(v) => (true, format!("{} :: {}", v.key, v.detail)),
            None => (false, "ok".into()),
        };
    }
    // three values make one pixel: the violating value is replayed in the slot it had
    let (items, shape) = crate::img::replay_items(case, vec![x, x, x], &f32s_from);
    crate::img::with_shape(shape, || match case["kind"].as_str().unwrap() {
        "c03" => check_curve(&mut acc, tc_from_name(case["tc"].as_str().unwrap()), g, 0, &items),
        "c03alias" => check_alias(&mut acc, tc_from_name(case["tc"].as_str().unwrap()), g, 0, &items),
        _ => check_linear(&mut acc, g, 0, &items),
    });
    match acc.viols.values().next() {
        Some(v) => (true, format!("{} :: {}", v.key, v.detail)),
        None => (false, "ok".into()),
    }
}

// ------------------------------------------------------------------------------------------------
// C10

fn check_rt(acc: &mut Acc, t: TC, base: u64, xs: &[f32]) {
    let mk = |x: f32| json!({"kind":"c10","tc":format!("{t:?}"),"x":x.to_bits()});
    acc.states += xs.len() as u64;
    acc.transitions += 2 * xs.len() as u64;
    let out = match to_linear(t, xs).and_then(|l| to_gamma(t, &l)) {
        Ok(o) => o,
        Err(e) => {
            acc.violation(base, format!("roundtrip-failed tc={t:?} {}", panic_site(&e)), e, mk(xs[0]));
            return;
        }
    };
    let budget = if t == TC::PerceptualQuantizer { 5.7e-4 } else { 2.5e-4 };
    let mut worst = 0.0;
    let mut wx = xs[0];
    for i in 0..xs.len() {
        let e = (out[i] as f64 - xs[i] as f64).abs();
        if e > worst {
            worst = e;
            wx = xs[i];
        }
        if !(e < budget) {
            acc.violation(
                base + i as u64,
                format!("gamma-roundtrip tc={t:?}"),
                format!("x={:e} (bits {:#x}) -> linear -> gamma = {:e}: error {e:.3e} >= {budget:e}", xs[i], xs[i].to_bits(), out[i]),
                mk(xs[i]),
            );
            acc.bucket("off", 1);
            return;
        }
    }
    acc.bucket("identity within budget", xs.len() as u64);
    acc.worst(&format!("abs_err/budget {t:?}"), worst / budget, || mk(wx));
    // the same values as dark saturated pixels (x,0,0), (0,x,0), (0,0,x): the zeros must come back
    // as a lone zero does, the value within its budget
    acc.transitions += 2 * xs.len() as u64;
    let rt = |px: &[[f32; 3]]| conv_px(t, false, px).and_then(|l| conv_px(t, true, &l));
    let placed: Vec<[f32; 3]> = xs.iter().enumerate().map(|(i, &x)| { let mut p = [0.0f32; 3]; p[i % 3] = x; p }).collect();
    if let (Ok(z), Ok(o)) = (rt(&[[0.0; 3]]), rt(&placed)) {
        for i in 0..xs.len() {
            for k in 0..3 {
                let bad = if k == i % 3 { !(((o[i][k] as f64) - xs[i] as f64).abs() < budget) } else { o[i][k].to_bits() != z[0][0].to_bits() };
                if bad {
                    acc.violation(
                        base + i as u64,
                        format!("gamma-roundtrip tc={t:?} (component not independent of its neighbours)"),
                        format!("pixel with {:e} in slot {} and zeros elsewhere came back as {}", xs[i], i % 3, px3s(o[i])),
                        mk(xs[i]),
                    );
                    return;
                }
            }
        }
        acc.bucket("dark saturated pixels (x,0,0): identity within budget, zeros untouched", xs.len() as u64);
    }
}

pub fn run_c10(tier: Tier) -> Report {
    let mut rep = Report::new("C10");
    let dom = Dom::for_tier(tier);
    let total = dom.len();
    let mut base = 0;
    for &t in SUPPORTED_TRANSFERS.iter() {
        let acc = par_chunks_varied(total, 3 << 14, |acc, lo, hi| {
            let xs = dom.slice(lo, hi);
            check_rt(acc, t, base + lo, &xs);
            crate::img::refine_violations(acc, base + lo, &xs, 3, &|a, it| check_rt(a, t, 0, it), &f32s_json);
            if lo == 0 && t == TC::HybridLogGamma {
                acc.sample(json!({"tc":"HybridLogGamma","x": format!("{:e}", xs[xs.len()/3]), "note":"Rgb{t} -> LinearRgb -> Rgb{t}"}));
            }
        });
        rep.acc.merge(acc);
        base += total;
    }
    rep.exhaustive = matches!(dom, Dom::AllF01);
    rep.bound = format!("14 supported characteristics x {}", dom.describe());
    rep.rule = "Rgb::try_from((LinearRgb::try_from(Rgb{t})?, t, BT709)) on every x of the domain; |result - x| < 5.7e-4 for PQ, < 2.5e-4 otherwise; no reference model involved".into();
    rep.guard_bucket("identity within budget");
    rep
}

pub fn replay_c10(case: &Value) -> (bool, String) {
    let x = f32::from_bits(case["x"].as_u64().unwrap() as u32);
    let mut acc = Acc::default();
    let (items, shape) = crate::img::replay_items(case, vec![x, x, x], &f32s_from);
    crate::img::with_shape(shape, || check_rt(&mut acc, tc_from_name(case["tc"].as_str().unwrap()), 0, &items));
    match acc.viols.values().next() {
        Some(v) => (true, format!("{} :: {}", v.key, v.detail)),
        None => (false, "ok".into()),
    }
}
