//! C09 — YUV->XYB->YUV returns the image within a small code budget.

use crate::explore::*;
use crate::img::*;
use crate::refmodel::*;
use serde_json::{json, Value};
use yuvxyb::{ColorPrimaries as CP, MatrixCoefficients as MC, Pixel, Rgb, TransferCharacteristic as TC, Xyb, Yuv, YuvConfig};

#[derive(Clone, Copy, Debug)]
pub struct Case {
    pub m: MC,
    pub t: TC,
    pub p: CP,
    pub full: bool,
    pub n: u8,
    pub wide: bool,
    pub ss: (u8, u8),
}
impl Case {
    fn cfg(&self) -> YuvConfig {
        cfg_full(self.n, self.full, self.ss, self.m, self.t, self.p)
    }
    fn json(&self) -> Value {
        json!({"kind":"c09","matrix":format!("{:?}",self.m),"transfer":format!("{:?}",self.t),"primaries":format!("{:?}",self.p),"full":self.full,"depth":self.n,"u16":self.wide,"ss":[self.ss.0,self.ss.1]})
    }
    fn from_json(v: &Value) -> Case {
        Case {
            m: mc_from_name(v["matrix"].as_str().unwrap()),
            t: tc_from_name(v["transfer"].as_str().unwrap()),
            p: cp_from_name(v["primaries"].as_str().unwrap()),
            full: v["full"].as_bool().unwrap(),
            n: v["depth"].as_u64().unwrap() as u8,
            wide: v["u16"].as_bool().unwrap(),
            ss: (v["ss"][0].as_u64().unwrap() as u8, v["ss"][1].as_u64().unwrap() as u8),
        }
    }
}

pub fn colours(steps: usize) -> Vec<[f32; 3]> {
    let mut v: Vec<[f32; 3]> = vec![];
    let n = steps + 1;
    for i in 0..n * n * n {
        v.push([(i / (n * n)) as f32 / steps as f32, ((i / n) % n) as f32 / steps as f32, (i % n) as f32 / steps as f32]);
    }
    for k in 1..=16 {
        v.push([2f32.powi(-k); 3]);
    }
    for k in 1..=9 {
        let g = k as f32 / 10.0;
        v.push([g, g, g]);
        v.push([g, 0.0, 0.0]);
        v.push([0.0, g, 0.0]);
        v.push([0.0, 0.0, g]);
    }
    v
}

fn run_case<T: Pixel>(acc: &mut Acc, idx: u64, c: &Case, cols: &[[f32; 3]], report_only: bool) {
    // two layouts: three rows of blocks (every chroma row/column position occurs), and a single
    // column of blocks (chroma planes exactly one sample wide, many rows) over the first colours
    run_layout::<T>(acc, idx, c, cols, report_only, 3);
    let narrow = &cols[..cols.len().min(96)];
    run_layout::<T>(acc, idx, c, narrow, report_only, narrow.len());
}

fn run_layout<T: Pixel>(acc: &mut Acc, idx: u64, c: &Case, cols: &[[f32; 3]], report_only: bool, brows: usize) {
    let cfg = c.cfg();
    let (bw, bh) = (1usize << c.ss.0, 1usize << c.ss.1);
    // block-constant image: colour k fills block k
    let bpr = (cols.len() + brows - 1) / brows;
    let (w, h) = (bpr * bw, brows * bh);
    let mut data = vec![[0.0f32; 3]; w * h];
    for y in 0..h {
        for x in 0..w {
            data[y * w + x] = cols[((y / bh) * bpr + x / bw) % cols.len()];
        }
    }
    acc.states += (brows == 3) as u64;
    acc.transitions += 3 * (w * h) as u64;
    let res = guarded(|| -> Result<(Yuv<T>, Yuv<T>), String> {
        let e = |e: yuvxyb::ConversionError| format!("{e:?}");
        let rgb = Rgb::new(data, w, h, c.t, c.p).unwrap();
        let yuv = Yuv::<T>::try_from((&rgb, cfg)).map_err(e)?;
        let xyb = Xyb::try_from(&yuv).map_err(e)?;
        let back = Yuv::<T>::try_from((xyb, yuv.config())).map_err(e)?;
        Ok((yuv, back))
    });
    let (yuv, back) = match res {
        Ok(Ok(x)) => x,
        Ok(Err(e)) | Err(e) => {
            acc.violation(idx, format!("xyb-roundtrip-failed {}", panic_site(&e)), format!("{c:?}: {e}"), c.json());
            return;
        }
    };
    if back.width() != yuv.width() || back.height() != yuv.height() || back.config() != yuv.config() || yuv.width() != w || yuv.height() != h {
        acc.violation(idx, "xyb-roundtrip-dims-or-config".into(), format!("{c:?}: {}x{} {:?} -> {}x{} {:?}", yuv.width(), yuv.height(), yuv.config(), back.width(), back.height(), back.config()), c.json());
        return;
    }
    let budget = (0.015 * ((1u32 << c.n) - 1) as f64).max(1.0);
    let mut worst = 0.0f64;
    let mut wpos = (0, 0);
    for p in 0..3 {
        let (a, b) = (plane_samples(&yuv.data()[p]), plane_samples(&back.data()[p]));
        for i in 0..a.len() {
            let d = (a[i] as f64 - b[i] as f64).abs();
            if d > worst {
                worst = d;
                wpos = (p, i);
            }
        }
    }
    if report_only {
        acc.worst("ST428 (excluded by the statement; reported only) diff/budget", worst / budget, || c.json());
        acc.bucket("ST 428 configs run (reported only)", 1);
        return;
    }
    acc.worst(&format!("diff/budget depth={} ss=({},{})", c.n, c.ss.0, c.ss.1), worst / budget, || c.json());
    if worst > budget {
        let col = cols[wpos.1 % cols.len().max(1)];
        let _ = col;
        acc.violation(
            idx,
            format!("xyb-roundtrip-over-budget matrix={:?} transfer={:?} primaries={:?}", c.m, c.t, c.p),
            format!("{c:?}: plane {} sample {} moved by {worst} codes > {budget:.2} (image {}x{} of block-constant lattice colours)", wpos.0, wpos.1, w, h),
            c.json(),
        );
        acc.bucket("over budget", 1);
        return;
    }
    if brows == 3 {
        acc.bucket(if c.ss == (0, 0) { "4:4:4 config within budget" } else { "subsampled config within budget" }, 1);
    } else if brows == 1 {
        acc.bucket("large image (65,539 pixels) within budget", 1);
    } else {
        acc.bucket("one-block-wide column image within budget", 1);
    }
}

pub fn cases() -> Vec<Case> {
    let mut v = vec![];
    for &m in STD_MATRICES.iter() {
        for &t in SUPPORTED_TRANSFERS.iter() {
            for &p in SUPPORTED_PRIMARIES.iter() {
                for full in [false, true] {
                    for &(n, wide) in DEPTH_STORAGE.iter() {
                        v.push(Case { m, t, p, full, n, wide, ss: (0, 0) });
                    }
                    for ss in [(1u8, 0u8), (1, 1), (0, 1), (2, 0), (2, 2)] {
                        for (n, wide) in [(8u8, false), (10, true), (16, true)] {
                            v.push(Case { m, t, p, full, n, wide, ss });
                        }
                    }
                }
            }
        }
    }
    v
}

pub fn run(tier: Tier) -> Report {
    let mut rep = Report::new("C09");
    // matrix tier (once per build configuration in C20): 4:4:4, limited range, 8 bit u8 and 10 bit u16
    let cs: Vec<Case> = if light() { cases().into_iter().filter(|c| c.ss == (0, 0) && !c.full && ((c.n == 8 && !c.wide) || (c.n == 10 && c.wide))).collect() } else { cases() };
    let cols = colours(tier.pick(10, 24));
    let fine = colours(tier.pick(16, 48));
    let acc = par_chunks(cs.len() as u64, 8, |acc, lo, hi| {
        for i in lo..hi {
            let c = &cs[i as usize];
            let st428 = c.p == CP::ST428;
            let cl = if c.ss == (0, 0) && c.n <= 10 && !light() { &fine } else { &cols };
            if c.wide {
                run_case::<u16>(acc, i, c, cl, st428)
            } else {
                run_case::<u8>(acc, i, c, cl, st428)
            }
        }
        if lo == 0 {
            acc.sample(json!({"config": cs[3].json(), "colours": cols.len(), "first_colours": [px3s(cols[1]), px3s(cols[100])]}));
        }
    });
    rep.acc.merge(acc);
    // one large 4:4:4 image (65,539 pixels: lattice colours cycled, plus a dense dark ramp) per
    // transfer characteristic and primaries set, 8 and 10 bit
    if !light() {
        let mut bigcols: Vec<[f32; 3]> = (0..BIG_SIZES[0]).map(|k| fine[(k * 7919) % fine.len()]).collect();
        for k in 0..4096usize {
            let v = 0.06 * k as f32 / 4096.0;
            bigcols[k * 16 % BIG_SIZES[0]] = [v, v, v];
            bigcols[(k * 16 + 5) % BIG_SIZES[0]] = [v, 0.0, v * 0.5];
        }
        let mut jobs = vec![];
        for &t in SUPPORTED_TRANSFERS.iter() {
            for &p in SUPPORTED_PRIMARIES.iter().filter(|p| **p != CP::ST428) {
                for (n, wide) in [(8u8, false), (10, true)] {
                    jobs.push(Case { m: MC::BT709, t, p, full: p == CP::BT709, n, wide, ss: (0, 0) });
                }
            }
        }
        let acc = par_chunks(jobs.len() as u64, 1, |acc, lo, _| {
            let c = &jobs[lo as usize];
            if c.wide {
                run_layout::<u16>(acc, cs.len() as u64 + lo, c, &bigcols, false, 1)
            } else {
                run_layout::<u8>(acc, cs.len() as u64 + lo, c, &bigcols, false, 1)
            }
        });
        rep.acc.merge(acc);
    }
    let n444 = cs.iter().filter(|c| c.ss == (0, 0) && c.p != CP::ST428).count();
    let nss = cs.iter().filter(|c| c.ss != (0, 0) && c.p != CP::ST428).count();
    rep.bound = format!(
        "all 7 x 14 x 10 = 980 supported (matrix, transfer, physical primaries) triples x 2 ranges x 10 depth/storage pairs = {n444} 4:4:4 configs, plus 5 subsamplings x depths {{8,10,16}} with block-constant images = {nss} configs (ST 428 run too, reported only); in-gamut images: RGB product {{i/{}}}^3 ({{i/{}}}^3 for 8..10-bit 4:4:4) + 16 near-black greys + 36 greys/primaries, encoded by the real Yuv::try_from((&Rgb,cfg))",
        tier.pick(10, 24), tier.pick(16, 48)
    );
    rep.rule = "Yuv::<T>::try_from((Xyb::try_from(&yuv)?, yuv.config())): width, height, config equal; every sample within max(1, 0.015*(2^n-1)) codes of the input".into();
    rep.assumptions = vec!["the continuous in-gamut set is bounded by the stated colour lattice; pointwise behaviour per C11".into()];
    if light() {
        rep.guard("1960 physical 4:4:4 configs (matrix tier)", n444 == 1960);
    } else {
        rep.guard("19600 physical 4:4:4 configs", n444 == 19600);
    }
    rep.guard_bucket("4:4:4 config within budget");
    if !light() {
        rep.guard_bucket("subsampled config within budget");
        rep.guard_bucket("large image (65,539 pixels) within budget");
    }
    rep
}

pub fn replay(case: &Value) -> (bool, String) {
    let c = Case::from_json(case);
    let mut acc = Acc::default();
    // replay with the finest colour set used by either tier (a superset is not needed: the
    // violating colour lies in one of them; try both)
    for steps in [10usize, 16, 24, 48] {
        let cols = colours(steps);
        if c.wide {
            run_case::<u16>(&mut acc, 0, &c, &cols, false)
        } else {
            run_case::<u8>(&mut acc, 0, &c, &cols, false)
        }
        if !acc.viols.is_empty() {
            break;
        }
    }
    match acc.viols.values().next() {
        Some(v) => (true, format!("{} :: {}", v.key, v.detail)),
        None => (false, "ok".into()),
    }
}
