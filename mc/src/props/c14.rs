//! C14 — support and error contract over every metadata combination.

use crate::explore::*;
use crate::img::*;
use crate::refmodel::*;
use serde_json::{json, Value};
use yuvxyb::{
    ColorPrimaries as CP, ConversionError as CE, Frame, LinearRgb, MatrixCoefficients as MC, Pixel, Plane, Rgb,
    TransferCharacteristic as TC, Xyb, Yuv, YuvConfig,
};

#[derive(Clone, Copy, PartialEq, Eq, Debug)]
pub enum Conv {
    YuvToRgb,
    RgbToYuv,
    RgbToLin,
    LinToRgb,
    YuvToLin,
    LinToYuv,
    YuvToXyb,
    XybToYuv,
    RgbToXyb,
    XybToRgb,
}
pub const PAIRS: [(Conv, Conv, bool); 5] = [
    (Conv::YuvToRgb, Conv::RgbToYuv, true),
    (Conv::RgbToLin, Conv::LinToRgb, true),
    (Conv::YuvToLin, Conv::LinToYuv, false),
    (Conv::YuvToXyb, Conv::XybToYuv, false),
    (Conv::RgbToXyb, Conv::XybToRgb, false),
];
pub fn conv_from(s: &str) -> Conv {
    for (a, b, _) in PAIRS {
        if format!("{a:?}") == s {
            return a;
        }
        if format!("{b:?}") == s {
            return b;
        }
    }
    panic!("bad conv {s}")
}

#[derive(Clone, Copy, Debug, PartialEq, Eq)]
pub struct Meta {
    pub m: MC,
    pub p: CP,
    pub t: TC,
    pub wide: bool,
    pub full: bool,
    /// chroma subsampling of the YUV side (2x2 images: (0,0), (1,0) or (1,1))
    pub ss: (u8, u8),
}
impl Meta {
    pub fn json(&self) -> Value {
        json!({"matrix":format!("{:?}",self.m),"primaries":format!("{:?}",self.p),"transfer":format!("{:?}",self.t),"u16":self.wide,"full":self.full,"ss":[self.ss.0,self.ss.1]})
    }
    pub fn from_json(v: &Value) -> Meta {
        Meta {
            m: mc_from_name(v["matrix"].as_str().unwrap()),
            p: cp_from_name(v["primaries"].as_str().unwrap()),
            t: tc_from_name(v["transfer"].as_str().unwrap()),
            wide: v["u16"].as_bool().unwrap(),
            full: v["full"].as_bool().unwrap(),
            ss: v.get("ss").and_then(|s| s.as_array()).map(|a| (a[0].as_u64().unwrap() as u8, a[1].as_u64().unwrap() as u8)).unwrap_or((0, 0)),
        }
    }
    pub fn cfg(&self) -> YuvConfig {
        cfg_full(if self.wide { 10 } else { 8 }, self.full, self.ss, self.m, self.t, self.p)
    }
}

const FLOATS: [[f32; 3]; 4] = [[0.1, 0.2, 0.3], [0.9, 0.5, 0.25], [0.5, 0.5, 0.5], [0.0, 1.0, 0.75]];

fn yuv_src<T: Pixel>(meta: &Meta) -> Yuv<T> {
    let k = if meta.wide { 4u16 } else { 1 };
    let (sx, sy) = (meta.ss.0 as usize, meta.ss.1 as usize);
    let mk = |vals: [u16; 4], chroma: bool| -> Plane<T> {
        let (w, h) = if chroma { (2 >> sx, 2 >> sy) } else { (2, 2) };
        let v: Vec<T> = vals.iter().take(w * h).map(|&c| T::cast_from(c * k)).collect();
        let mut p = Plane::from_slice(&v, w);
        if chroma {
            p.cfg.xdec = sx;
            p.cfg.ydec = sy;
        }
        p
    };
    // includes foot- and headroom codes (5, 250, 3, 252): where limited-range clamping happens
    let frame = Frame { planes: [mk([5, 120, 180, 250], false), mk([100, 3, 140, 252], true), mk([250, 110, 2, 200], true)] };
    Yuv::new(frame, meta.cfg()).expect("2x2 4:4:4 frame")
}

fn digest_f(d: &[[f32; 3]]) -> Vec<u32> {
    d.iter().flat_map(|p| p.iter().map(|c| c.to_bits())).collect()
}
fn digest_yuv<T: Pixel>(y: &Yuv<T>) -> Vec<u32> {
    y.data().iter().flat_map(|p| plane_samples(p).into_iter().map(u32::from)).collect()
}

fn run_t<T: Pixel>(conv: Conv, meta: &Meta) -> Result<Vec<u32>, CE> {
    let rgb_src = || Rgb::new(FLOATS.to_vec(), 2, 2, meta.t, meta.p).unwrap();
    let lin_src = || LinearRgb::new(FLOATS.to_vec(), 2, 2).unwrap();
    let xyb_src = || Xyb::new(vec![[0.0, 0.3, 0.3], [0.01, 0.5, 0.4], [-0.01, 0.2, 0.25], [0.0, 0.8, 0.8]], 2, 2).unwrap();
    Ok(match conv {
        Conv::YuvToRgb => digest_f(Rgb::try_from(&yuv_src::<T>(meta))?.data()),
        Conv::RgbToYuv => digest_yuv(&Yuv::<T>::try_from((&rgb_src(), meta.cfg()))?),
        Conv::RgbToLin => digest_f(LinearRgb::try_from(rgb_src())?.data()),
        Conv::LinToRgb => digest_f(Rgb::try_from((lin_src(), meta.t, meta.p))?.data()),
        Conv::YuvToLin => digest_f(LinearRgb::try_from(&yuv_src::<T>(meta))?.data()),
        Conv::LinToYuv => digest_yuv(&Yuv::<T>::try_from((lin_src(), meta.cfg()))?),
        Conv::YuvToXyb => digest_f(Xyb::try_from(&yuv_src::<T>(meta))?.data()),
        Conv::XybToYuv => digest_yuv(&Yuv::<T>::try_from((xyb_src(), meta.cfg()))?),
        Conv::RgbToXyb => digest_f(Xyb::try_from(rgb_src())?.data()),
        Conv::XybToRgb => digest_f(Rgb::try_from((xyb_src(), meta.t, meta.p))?.data()),
    })
}

/// The same conversion through its other public entry point (by value instead of by reference),
/// where one exists.
fn run_alt_t<T: Pixel>(conv: Conv, meta: &Meta) -> Option<Result<Vec<u32>, CE>> {
    let rgb_src = || Rgb::new(FLOATS.to_vec(), 2, 2, meta.t, meta.p).unwrap();
    Some((|| {
        Ok(match conv {
            Conv::YuvToRgb => digest_f(Rgb::try_from(yuv_src::<T>(meta))?.data()),
            Conv::RgbToYuv => digest_yuv(&Yuv::<T>::try_from((rgb_src(), meta.cfg()))?),
            Conv::YuvToLin => digest_f(LinearRgb::try_from(yuv_src::<T>(meta))?.data()),
            Conv::YuvToXyb => digest_f(Xyb::try_from(yuv_src::<T>(meta))?.data()),
            _ => return Err(None),
        })
    })()
    .map_err(|e: Option<CE>| e))
    .and_then(|r: Result<Vec<u32>, Option<CE>>| match r {
        Ok(v) => Some(Ok(v)),
        Err(Some(e)) => Some(Err(e)),
        Err(None) => None,
    })
}
pub fn run_alt(conv: Conv, meta: &Meta) -> Result<Option<Result<Vec<u32>, CE>>, String> {
    guarded(|| if meta.wide { run_alt_t::<u16>(conv, meta) } else { run_alt_t::<u8>(conv, meta) })
}

fn run_empty_t<T: Pixel>(conv: Conv, meta: &Meta, w: usize, h: usize) -> Result<usize, CE> {
    // zero-pixel images (0x0, 0xN, Nx0): support must not depend on the number of pixels
    let (sx, sy) = (meta.ss.0 as usize, meta.ss.1 as usize);
    let yuv = || -> Yuv<T> {
        let f = Frame { planes: [Plane::new(w, h, 0, 0, 0, 0), Plane::new(w >> sx, h >> sy, sx, sy, 0, 0), Plane::new(w >> sx, h >> sy, sx, sy, 0, 0)] };
        Yuv::new(f, meta.cfg()).expect("empty frame")
    };
    let rgb = || Rgb::new(vec![], w, h, meta.t, meta.p).unwrap();
    let lin = || LinearRgb::new(vec![], w, h).unwrap();
    let xyb = || Xyb::new(vec![], w, h).unwrap();
    Ok(match conv {
        Conv::YuvToRgb => Rgb::try_from(&yuv())?.data().len(),
        Conv::RgbToYuv => Yuv::<T>::try_from((&rgb(), meta.cfg()))?.width(),
        Conv::RgbToLin => LinearRgb::try_from(rgb())?.data().len(),
        Conv::LinToRgb => Rgb::try_from((lin(), meta.t, meta.p))?.data().len(),
        Conv::YuvToLin => LinearRgb::try_from(&yuv())?.data().len(),
        Conv::LinToYuv => Yuv::<T>::try_from((lin(), meta.cfg()))?.width(),
        Conv::YuvToXyb => Xyb::try_from(&yuv())?.data().len(),
        Conv::XybToYuv => Yuv::<T>::try_from((xyb(), meta.cfg()))?.width(),
        Conv::RgbToXyb => Xyb::try_from(rgb())?.data().len(),
        Conv::XybToRgb => Rgb::try_from((xyb(), meta.t, meta.p))?.data().len(),
    })
}
/// Ok/Err class of a conversion of a zero-pixel image (outer Err = panic message).
pub fn run_empty(conv: Conv, meta: &Meta, w: usize, h: usize) -> Result<Result<usize, CE>, String> {
    guarded(|| if meta.wide { run_empty_t::<u16>(conv, meta, w, h) } else { run_empty_t::<u8>(conv, meta, w, h) })
}

/// Outer Err = panic message.
pub fn run_conv(conv: Conv, meta: &Meta) -> Result<Result<Vec<u32>, CE>, String> {
    guarded(|| if meta.wide { run_t::<u16>(conv, meta) } else { run_t::<u8>(conv, meta) })
}

fn field_of(e: CE) -> Option<&'static str> {
    Some(match e {
        CE::UnsupportedMatrixCoefficients => "matrix",
        CE::UnsupportedColorPrimaries => "primaries",
        CE::UnsupportedTransferCharacteristic => "transfer",
        _ => return None,
    })
}

fn check_meta(acc: &mut Acc, idx: u64, meta: &Meta) {
    let all_supported = STD_MATRICES.contains(&meta.m) && SUPPORTED_TRANSFERS.contains(&meta.t) && SUPPORTED_PRIMARIES.contains(&meta.p);
    for (fwd, rev, single_stage) in PAIRS {
        let mut results = vec![];
        for conv in [fwd, rev] {
            let mk = || json!({"kind":"c14","conv":format!("{conv:?}"),"meta":meta.json()});
            acc.states += 1;
            acc.transitions += 1;
            let r = match run_conv(conv, meta) {
                Ok(r) => r,
                Err(p) => {
                    acc.violation(idx, format!("panic conv={conv:?} {}", panic_site(&p)), format!("{:?}: {p}", meta), mk());
                    acc.bucket("panicked", 1);
                    return;
                }
            };
            // the other public entry point of the same conversion (by value instead of by reference)
            // must agree with this one: same error or same samples
            match run_alt(conv, meta) {
                Ok(None) => {}
                Ok(Some(alt)) => {
                    acc.transitions += 1;
                    if alt != r {
                        let show = |x: &Result<Vec<u32>, CE>| match x {
                            Ok(_) => "Ok(..)".to_string(),
                            Err(e) => format!("Err({e:?})"),
                        };
                        acc.violation(idx, format!("entry-points-disagree conv={conv:?}"), format!("{:?}: by reference -> {}, by value -> {}{}", meta, show(&r), show(&alt), if r.is_ok() && alt.is_ok() { " with different samples" } else { "" }), mk());
                        return;
                    }
                    acc.bucket("by-value entry point agrees with by-reference", 1);
                }
                Err(p) => {
                    acc.violation(idx, format!("panic conv={conv:?} (by value) {}", panic_site(&p)), format!("{:?}: {p}", meta), mk());
                    return;
                }
            }
            match &r {
                Ok(_) => acc.bucket("Ok", 1),
                Err(e) => {
                    acc.bucket(&format!("Err({e:?})"), 1);
                    let Some(field) = field_of(*e) else {
                        acc.violation(idx, format!("unspecified-error-for-specified-metadata conv={conv:?}"), format!("{:?} -> {e:?}", meta), mk());
                        return;
                    };
                    // the named field must be offending: replacing only it by a universally
                    // supported value must make this error go away
                    let mut m2 = *meta;
                    match field {
                        "matrix" => m2.m = MC::BT709,
                        "primaries" => m2.p = CP::BT709,
                        _ => m2.t = TC::BT1886,
                    }
                    acc.transitions += 1;
                    match run_conv(conv, &m2) {
                        Ok(Err(e2)) if e2 == *e => {
                            acc.violation(
                                idx,
                                format!("error-names-innocent-field conv={conv:?} error={e:?}"),
                                format!("{:?} -> {e:?}, and still {e2:?} after replacing only the {field} by a supported value", meta),
                                mk(),
                            );
                            return;
                        }
                        Err(p) => {
                            acc.violation(idx, format!("panic conv={conv:?} {}", panic_site(&p)), format!("{:?}: {p}", m2), mk());
                            return;
                        }
                        _ => {}
                    }
                    if all_supported {
                        acc.violation(idx, format!("supported-combination-rejected conv={conv:?}"), format!("{:?} -> {e:?} although matrix, curve and primaries are all in the supported sets", meta), mk());
                        return;
                    }
                }
            }
            // the same conversion of zero-pixel images must fall into the same Ok/Err class
            if meta.ss == (0, 0) {
                for (w, h) in [(0usize, 0usize), (0, 3), (2, 0)] {
                    // A zero-width plane with rows cannot be iterated by v_frame (its PlaneIter
                    // underflows): `Yuv::new` panics on a 0xN u16 frame. Widths of 0 are outside every
                    // property's stated domain, so this shape is used for the float-only conversions.
                    let touches_yuv = !matches!(conv, Conv::RgbToLin | Conv::LinToRgb | Conv::RgbToXyb | Conv::XybToRgb);
                    if touches_yuv && w == 0 && h > 0 {
                        continue;
                    }
                    acc.transitions += 1;
                    let class = |x: &Result<Result<usize, CE>, String>| match x {
                        Ok(Ok(_)) => "Ok".to_string(),
                        Ok(Err(e)) => format!("Err({e:?})"),
                        Err(p) => format!("panic {}", panic_site(p)),
                    };
                    let e = run_empty(conv, meta, w, h);
                    let want = match &r {
                        Ok(_) => "Ok".to_string(),
                        Err(e) => format!("Err({e:?})"),
                    };
                    if class(&e) != want {
                        acc.violation(
                            idx,
                            format!("support-depends-on-pixel-count conv={conv:?}"),
                            format!("{:?}: a 2x2 image gives {want}, a {w}x{h} image gives {}", meta, class(&e)),
                            json!({"kind":"c14","conv":format!("{conv:?}"),"meta":meta.json()}),
                        );
                        return;
                    }
                }
                acc.bucket("zero-pixel images fall into the same Ok/Err class", 1);
            }
            results.push(r);
        }
        let mk = || json!({"kind":"c14","conv":format!("{fwd:?}"),"meta":meta.json()});
        let (a, b) = (&results[0], &results[1]);
        if a.is_ok() != b.is_ok() {
            acc.violation(idx, format!("asymmetric-support pair={fwd:?}/{rev:?}"), format!("{:?}: {fwd:?} -> {:?}, {rev:?} -> {:?}", meta, a.as_ref().err(), b.as_ref().err()), mk());
            return;
        }
        // single-stage pairs report the same error. For gamma<->linear the primaries stage is a
        // second stage; the comparison is made when the primaries are supported (DESIGN 2.3).
        let comparable = single_stage && (fwd == Conv::YuvToRgb || SUPPORTED_PRIMARIES.contains(&meta.p));
        if comparable {
            if let (Err(ea), Err(eb)) = (a, b) {
                if ea != eb {
                    acc.violation(idx, format!("different-errors pair={fwd:?}/{rev:?}"), format!("{:?}: {fwd:?} -> {ea:?} but {rev:?} -> {eb:?}", meta), mk());
                    return;
                }
                acc.bucket("single-stage pair: same error both ways", 1);
            }
        }
    }
}

fn check_label_independence(acc: &mut Acc, idx: u64, m: MC, wide: bool, full: bool) {
    let base = Meta { m, p: CP::BT709, t: TC::BT1886, wide, full, ss: (0, 0) };
    let ref_dec = run_conv(Conv::YuvToRgb, &base);
    let ref_enc = run_conv(Conv::RgbToYuv, &base);
    for &p in ALL_PRIMARIES.iter().filter(|p| **p != CP::Unspecified) {
        for &t in ALL_TRANSFERS.iter().filter(|t| **t != TC::Unspecified) {
            let meta = Meta { m, p, t, wide, full, ss: (0, 0) };
            acc.states += 1;
            acc.transitions += 2;
            for (conv, reference) in [(Conv::YuvToRgb, &ref_dec), (Conv::RgbToYuv, &ref_enc)] {
                let r = run_conv(conv, &meta);
                if &r != reference {
                    acc.violation(
                        idx,
                        format!("result-depends-on-unused-metadata conv={conv:?}"),
                        format!("{:?}: result differs from the same conversion labelled BT709/BT1886 ({:?} vs {:?})", meta, r.as_ref().map(|x| x.as_ref().map(|d| d.len())), reference.as_ref().map(|x| x.as_ref().map(|d| d.len()))),
                        json!({"kind":"c14labels","matrix":format!("{m:?}"),"u16":wide,"full":full}),
                    );
                    return;
                }
            }
            acc.bucket("standard matrix: YUV<->RGB identical across label pairs", 1);
        }
    }
}

pub fn all_meta() -> Vec<Meta> {
    let mut v = vec![];
    for &m in ALL_MATRICES.iter().filter(|m| **m != MC::Unspecified) {
        for &p in ALL_PRIMARIES.iter().filter(|p| **p != CP::Unspecified) {
            for &t in ALL_TRANSFERS.iter().filter(|t| **t != TC::Unspecified) {
                for wide in [false, true] {
                    for full in [false, true] {
                        // subsampling rotates with storage/range so that every (triple, subsampling)
                        // pair occurs and the state count stays 3276 x 4 x 2
                        v.push(Meta { m, p, t, wide, full, ss: (0, 0) });
                        v.push(Meta { m, p, t, wide, full, ss: if wide == full { (1, 1) } else { (1, 0) } });
                    }
                }
            }
        }
    }
    v
}

pub fn run(_tier: Tier) -> Report {
    let mut rep = Report::new("C14");
    let metas = all_meta();
    let acc = par_chunks(metas.len() as u64, 64, |acc, lo, hi| {
        for i in lo..hi {
            check_meta(acc, i, &metas[i as usize]);
        }
        if lo == 0 {
            acc.sample(json!({"meta": metas[(hi - 1) as usize].json(), "conversions": PAIRS.iter().map(|(a, b, _)| format!("{a:?}/{b:?}")).collect::<Vec<_>>() }));
        }
    });
    rep.acc.merge(acc);
    let mut combos = vec![];
    for &m in STD_MATRICES.iter() {
        for wide in [false, true] {
            for full in [false, true] {
                combos.push((m, wide, full));
            }
        }
    }
    let acc = par_chunks(combos.len() as u64, 1, |acc, lo, _| {
        let (m, w, f) = combos[lo as usize];
        check_label_independence(acc, 1_000_000 + lo, m, w, f);
    });
    rep.acc.merge(acc);
    rep.exhaustive = true;
    rep.bound = format!("all 14 x 13 x 18 = 3276 fully specified (matrix, primaries, transfer) triples x {{u8/8 bit, u16/10 bit}} x {{limited, full}} x {{4:4:4, subsampled}} = {} metadata states x 10 conversions (5 forward/reverse pairs; the four that have a by-value and a by-reference entry point through both, which must agree) on a 2x2 image (and, for 4:4:4, on 0x0, 0x3 and 2x0 images, which must fall into the same Ok/Err class), plus one metamorphic re-run per error; for each standard matrix all 13 x 18 label pairs for YUV<->RGB", metas.len());
    rep.rule = "each conversion runs inside catch_unwind: Ok or an Unsupported* error whose named field is offending (replacing only that field by BT709/BT1886 removes that error); never Unspecified*; forward Ok <=> reverse Ok; YUV<->RGB and (with supported primaries) gamma<->linear return the same error; supported sets always succeed; YUV<->RGB data bit-identical across labels".into();
    rep.assumptions = vec!["'names an offending field' is decided metamorphically (DESIGN 2.3)".into()];
    rep.guard("all 3276 x 4 x 2 metadata states", metas.len() == 3276 * 8);
    rep.guard_bucket("Ok");
    rep.guard_bucket("Err(UnsupportedMatrixCoefficients)");
    rep.guard_bucket("Err(UnsupportedColorPrimaries)");
    rep.guard_bucket("Err(UnsupportedTransferCharacteristic)");
    rep.guard_bucket("single-stage pair: same error both ways");
    rep.guard_bucket("zero-pixel images fall into the same Ok/Err class");
    rep.guard_bucket("by-value entry point agrees with by-reference");
    rep.guard_bucket("standard matrix: YUV<->RGB identical across label pairs");
    rep
}

pub fn replay(case: &Value) -> (bool, String) {
    let mut acc = Acc::default();
    if case["kind"] == "c14" {
        check_meta(&mut acc, 0, &Meta::from_json(&case["meta"]));
    } else {
        check_label_independence(&mut acc, 0, mc_from_name(case["matrix"].as_str().unwrap()), case["u16"].as_bool().unwrap(), case["full"].as_bool().unwrap());
    }
    match acc.viols.values().next() {
        Some(v) => (true, format!("{} :: {}", v.key, v.detail)),
        None => (false, "ok".into()),
    }
}
