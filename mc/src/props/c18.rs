//! C18 — the fast math helpers meet their accuracy contracts on their whole domain.

use crate::explore::*;
use serde_json::{json, Value};
use yuvxyb_math::{cbrtf, expf, powf};

pub fn specials() -> Vec<f32> {
    let mut v = vec![
        0.0f32,
        f32::from_bits(1),
        1e-40,
        f32::MIN_POSITIVE,
        1e-20,
        0.5,
        1.0,
        1.5,
        2.0,
        2.4,
        10.0,
        80.0,
        88.0,
        89.0,
        127.0,
        128.0,
        129.0,
        1e10,
        2.4e38,
        3e38,
        f32::MAX,
        f32::INFINITY,
        f32::NAN,
        f32::from_bits(0x7F80_0001), // signalling NaN
        f32::from_bits(0x7FFF_FFFF),
    ];
    let neg: Vec<f32> = v.iter().map(|x| -x).collect();
    v.extend(neg);
    v
}

fn ulp32_of(r: f64) -> f64 {
    // ulp of the f32 binade containing |r| (normal range): 2^(exponent(r) - 23)
    let e = ((r.to_bits() >> 52) & 0x7FF) as i64 - 1023;
    f64::from_bits(((e - 23 + 1023) as u64) << 52)
}

#[inline]
fn total_call(acc: &mut Acc, idx: u64, what: &str, case: impl FnOnce() -> Value, f: impl FnOnce() -> f32) -> Option<f32> {
    match guarded(f) {
        Ok(v) => Some(v),
        Err(e) => {
            acc.violation(idx, format!("not-total fn={what} {}", panic_site(&e)), e, case());
            acc.bucket("panicked", 1);
            None
        }
    }
}

fn cbrt_chunk(acc: &mut Acc, lo: u64, hi: u64) {
    cbrt_chunk_sh(acc, lo, hi, 0)
}
fn cbrt_chunk_sh(acc: &mut Acc, lo: u64, hi: u64, sh: u32) {
    let (mut normal, mut other) = (0u64, 0u64);
    let mut worst = 0.0f64;
    let mut wb = 0u32;
    for b in lo..hi {
        let bits = (b << sh) as u32;
        let x = f32::from_bits(bits);
        let mk = || json!({"kind":"c18","fn":"cbrtf","x":bits});
        let Some(r) = total_call(acc, b, "cbrtf", mk, || cbrtf(x)) else { return };
        if x.is_normal() {
            normal += 1;
            let exact = (x as f64).cbrt();
            let e = (r as f64 - exact).abs() / ulp32_of(exact);
            if e > worst {
                worst = e;
                wb = bits;
            }
            if !(e <= 1.0) {
                acc.violation(b, "cbrtf-inaccurate".into(), format!("cbrtf({x:e}) = {r:e}, true {exact:.9e}: {e:.3} ulp > 1"), mk());
                return;
            }
            // oddness, bitwise
            let rn = cbrtf(-x);
            if rn.to_bits() != (r.to_bits() ^ 0x8000_0000) {
                acc.violation(b, "cbrtf-not-odd".into(), format!("cbrtf({x:e}) = {r:e} but cbrtf({:e}) = {rn:e}", -x), mk());
                return;
            }
        } else {
            other += 1;
        }
    }
    acc.states += hi - lo;
    acc.transitions += hi - lo + normal;
    acc.bucket("cbrtf normal: within 1 ulp and odd", normal);
    acc.bucket("cbrtf non-normal argument: total", other);
    acc.worst("cbrtf ulp error", worst, || json!({"x": wb}));
}

fn exp_chunk(acc: &mut Acc, lo: u64, hi: u64) {
    exp_chunk_sh(acc, lo, hi, 0)
}
fn exp_chunk_sh(acc: &mut Acc, lo: u64, hi: u64, sh: u32) {
    let (mut mid, mut hi_tail, mut lo_tail, mut other) = (0u64, 0u64, 0u64, 0u64);
    let mut worst = 0.0f64;
    let mut wb = 0u32;
    for b in lo..hi {
        let bits = (b << sh) as u32;
        let x = f32::from_bits(bits);
        let mk = || json!({"kind":"c18","fn":"expf","x":bits});
        let Some(r) = total_call(acc, b, "expf", mk, || expf(x)) else { return };
        if (-85.0..=85.0).contains(&x) {
            mid += 1;
            let exact = (x as f64).exp();
            let e = ((r as f64 - exact) / exact).abs();
            if e > worst {
                worst = e;
                wb = bits;
            }
            if !(e <= 1e-5) {
                acc.violation(b, "expf-inaccurate".into(), format!("expf({x:e}) = {r:e}, true {exact:.9e}: relative error {e:.3e} > 1e-5"), mk());
                return;
            }
        } else if (89.0..=1e38).contains(&x) {
            hi_tail += 1;
            if r != f32::INFINITY {
                acc.violation(b, "expf-upper-tail".into(), format!("expf({x:e}) = {r:e}, expected +inf"), mk());
                return;
            }
        } else if (-1e38..=-88.0).contains(&x) {
            lo_tail += 1;
            // a build that did not request `fastmath` answers with libm's exp, whose correctly rounded
            // result is a non-zero subnormal for x in (-104, -88]: "agrees with libm" (C20) governs there
            let near_libm = !cfg!(feature = "fastmath") && ((r as f64) - (x as f64).exp()).abs() <= 2.0 * 1.4e-45;
            if r != 0.0 && !near_libm {
                acc.violation(b, "expf-lower-tail".into(), format!("expf({x:e}) = {r:e}, expected 0"), mk());
                return;
            }
        } else {
            other += 1;
        }
    }
    acc.states += hi - lo;
    acc.transitions += hi - lo;
    acc.bucket("expf [-85,85]: relative error <= 1e-5", mid);
    acc.bucket("expf [89,1e38]: +inf", hi_tail);
    acc.bucket("expf [-1e38,-88]: 0", lo_tail);
    acc.bucket("expf elsewhere (NaN, inf, gaps, huge): total", other);
    acc.worst("expf relative error", worst, || json!({"x": wb}));
}

pub const EXPONENTS: [f32; 12] = [
    2.4,
    2.2,
    2.8,
    0.45,
    1.0 / 2.4,
    1.0 / 2.2,
    1.0 / 2.8,
    1.0 / 0.45,
    0.159_301_76,
    78.84375,
    1.0 / 0.159_301_76,
    1.0 / 78.84375,
];

#[inline]
fn pow_one(acc: &mut Acc, idx: u64, x: f32, y: f32, worst: &mut f64, wcase: &mut (u32, u32)) -> Option<bool> {
    let mk = || json!({"kind":"c18","fn":"powf","x":x.to_bits(),"y":y.to_bits()});
    let exact = (x as f64).powf(y as f64);
    let r = total_call(acc, idx, "powf", mk, || powf(x, y))?;
    if !(1e-35..=1e35).contains(&exact) {
        return Some(false);
    }
    let bound = 2.5e-4 + 8e-6 * (y as f64).abs();
    let e = ((r as f64 - exact) / exact).abs();
    if e / bound > *worst {
        *worst = e / bound;
        *wcase = (x.to_bits(), y.to_bits());
    }
    if !(e <= bound) {
        acc.violation(idx, format!("powf-inaccurate y={y}"), format!("powf({x:e}, {y:e}) = {r:e}, true {exact:.9e}: relative error {e:.3e} > {bound:.3e}"), mk());
        return None;
    }
    Some(true)
}

pub fn run(tier: Tier) -> Report {
    let mut rep = Report::new("C18");
    let all = 1u64 << 32;
    // totality on special x special first (simplest)
    {
        let sp = specials();
        let mut acc = Acc::default();
        let mut idx = 0;
        for &x in &sp {
            total_call(&mut acc, idx, "cbrtf", || json!({"kind":"c18","fn":"cbrtf","x":x.to_bits()}), || cbrtf(x));
            total_call(&mut acc, idx, "expf", || json!({"kind":"c18","fn":"expf","x":x.to_bits()}), || expf(x));
            for &y in &sp {
                total_call(&mut acc, idx, "powf", || json!({"kind":"c18","fn":"powf","x":x.to_bits(),"y":y.to_bits()}), || powf(x, y));
                idx += 1;
                acc.states += 1;
                acc.transitions += 1;
            }
        }
        acc.bucket("special x special calls", idx);
        rep.acc.merge(acc);
    }
    let mut base = 10_000u64;
    // cbrtf, expf: every bit pattern
    let sh: u32 = if light() { 7 } else { 0 };
    rep.acc.merge(par_chunks(all >> sh, 1 << 20, |acc, lo, hi| cbrt_chunk_sh(acc, lo, hi, sh)));
    base += all;
    rep.acc.merge(par_chunks(all >> sh, 1 << 20, |acc, lo, hi| exp_chunk_sh(acc, lo, hi, sh)));
    base += all;
    let _ = base;
    // powf: positive normals x fixed exponents
    let shift: u32 = if light() { 12 } else { tier.pick(8, 0) };
    let first = 0x0080_0000u64 >> shift;
    let last = 0x7F80_0000u64 >> shift; // exclusive (inf)
    for &y in EXPONENTS.iter() {
        let acc = par_chunks(last - first, 1 << 18, |acc, lo, hi| {
            let mut worst = 0.0;
            let mut wc = (0, 0);
            let mut n = 0;
            for i in lo..hi {
                let x = f32::from_bits(((first + i) << shift) as u32);
                match pow_one(acc, i, x, y, &mut worst, &mut wc) {
                    None => return,
                    Some(true) => n += 1,
                    Some(false) => {}
                }
            }
            acc.states += hi - lo;
            acc.transitions += hi - lo;
            acc.bucket("powf fixed exponent: within bound", n);
            acc.bucket("powf: true result outside [1e-35,1e35] (contract silent)", hi - lo - n);
            acc.worst(&format!("powf err/bound y={y}"), worst, || json!({"x": wc.0, "y": wc.1}));
        });
        rep.acc.merge(acc);
    }
    // base 10 (the log curves): y = 2(v-1), 2.5(v-1), v over the C03 stratum / all of F01 is covered by C03 itself
    {
        let dom = super::c03::quick_domain();
        for mul in [2.0f32, 2.5] {
            let acc = par_chunks(dom.len() as u64, 1 << 16, |acc, lo, hi| {
                let mut worst = 0.0;
                let mut wc = (0, 0);
                let mut n = 0;
                for i in lo..hi {
                    let v = f32::from_bits(dom[i as usize]);
                    let y = mul * (v - 1.0);
                    match pow_one(acc, i, 10.0, y, &mut worst, &mut wc) {
                        None => return,
                        Some(true) => n += 1,
                        Some(false) => {}
                    }
                }
                acc.states += hi - lo;
                acc.transitions += hi - lo;
                acc.bucket("powf base 10: within bound", n);
                acc.worst("powf err/bound base 10", worst, || json!({"x": wc.0, "y": wc.1}));
            });
            rep.acc.merge(acc);
        }
    }
    // (exponent x mantissa) x y-grid product
    let mant_bits: u32 = if light() { 4 } else { tier.pick(6, 10) };
    let nm = 1u64 << mant_bits;
    let ny = 1601u64;
    let total = 254 * nm * ny;
    let acc = par_chunks(total, 1 << 18, |acc, lo, hi| {
        let mut worst = 0.0;
        let mut wc = (0, 0);
        let mut n = 0;
        for i in lo..hi {
            let yi = i % ny;
            let xm = (i / ny) % nm;
            let xe = i / (ny * nm) + 1;
            let x = f32::from_bits(((xe as u32) << 23) | ((xm as u32) << (23 - mant_bits)));
            let y = (-80.0 + 0.1 * yi as f64) as f32;
            match pow_one(acc, i, x, y, &mut worst, &mut wc) {
                None => return,
                Some(true) => n += 1,
                Some(false) => {}
            }
        }
        acc.states += hi - lo;
        acc.transitions += hi - lo;
        acc.bucket("powf (x,y) product: within bound", n);
        acc.bucket("powf: true result outside [1e-35,1e35] (contract silent)", hi - lo - n);
        acc.worst("powf err/bound (x,y) product", worst, || json!({"x": wc.0, "y": wc.1}));
        if lo == 0 {
            acc.sample(json!({"fn":"powf","x":format!("{:e}", f32::from_bits(wc.0)),"y":format!("{:e}", f32::from_bits(wc.1)),"err_over_bound":worst}));
        }
    });
    rep.acc.merge(acc);
    // exponents of every magnitude: y = +-2^-k and +-1.5*2^-k for k = 0..=40 (down to where x^y is 1 to
    // the last bit for every x) against every binade of x and 64 mantissas: shortcuts for "small" or
    // "integral" y are thresholded somewhere on this axis
    {
        let ys: Vec<f32> = (0..=40).flat_map(|k| { let b = 2f64.powi(-k); [b, -b, 1.5 * b, -1.5 * b, 80.0 * b, -80.0 * b] }).map(|y| y as f32).collect();
        let nm3 = 64u64;
        let ny3 = ys.len() as u64;
        let total3 = 254 * nm3 * ny3;
        let acc = par_chunks(total3, 1 << 16, |acc, lo, hi| {
            let mut worst = 0.0;
            let mut wc = (0, 0);
            let mut n = 0;
            for i in lo..hi {
                let y = ys[(i % ny3) as usize];
                let xm = (i / ny3) % nm3;
                let xe = i / (ny3 * nm3) + 1;
                let x = f32::from_bits(((xe as u32) << 23) | ((xm as u32) << 17));
                match pow_one(acc, i, x, y, &mut worst, &mut wc) {
                    None => return,
                    Some(true) => n += 1,
                    Some(false) => {}
                }
            }
            acc.states += hi - lo;
            acc.transitions += hi - lo;
            acc.bucket("powf, y of every magnitude: within bound", n);
            acc.worst("powf err/bound y-magnitude sweep", worst, || json!({"x": wc.0, "y": wc.1}));
        });
        rep.acc.merge(acc);
    }
    // (mantissa x exponent) x lattice of t = y*log2(x): powf is exp2(y*log2 x), whose error is a function
    // of the mantissa of x (the log2 polynomial) and of the integer and fractional part of t (the exp2
    // split); the (x,y) grid above samples frac(t) irregularly, this one places it on a lattice of its own
    // (k + j/F for every integer k the contract allows, plus both sides of 0 and 1/2)
    if !light() {
        let mb: u32 = tier.pick(10, 12);
        let nf: u64 = tier.pick(256, 1024);
        let nm2 = 1u64 << mb;
        let exps: [i32; 6] = [-3, -2, -1, 0, 1, 2];
        let nk = 233u64; // k = -116..=116
        let nfr = nf + 4;
        let total = exps.len() as u64 * nm2 * nk * nfr;
        let acc = par_chunks(total, 1 << 18, |acc, lo, hi| {
            let mut worst = 0.0;
            let mut wc = (0, 0);
            let mut n = 0;
            for i in lo..hi {
                let fi = i % nfr;
                let k = (i / nfr) % nk;
                let xm = (i / (nfr * nk)) % nm2;
                let xe = exps[(i / (nfr * nk * nm2)) as usize];
                let x = f32::from_bits((((127 + xe) as u32) << 23) | ((xm as u32) << (23 - mb)));
                let l2 = (x as f64).log2();
                if l2 == 0.0 {
                    continue;
                }
                let frac = match fi {
                    f if f < nf => f as f64 / nf as f64,
                    f if f == nf => 1e-4,
                    f if f == nf + 1 => 1.0 - 1e-4,
                    f if f == nf + 2 => 0.5 - 1e-4,
                    _ => 0.5 + 1e-4,
                };
                let t = k as f64 - 116.0 + frac;
                let y = (t / l2) as f32;
                if !(y.abs() <= 80.0) {
                    continue;
                }
                match pow_one(acc, i, x, y, &mut worst, &mut wc) {
                    None => return,
                    Some(true) => n += 1,
                    Some(false) => {}
                }
            }
            acc.states += hi - lo;
            acc.transitions += n;
            acc.bucket("powf (mantissa, t = y*log2 x) lattice: within bound", n);
            acc.worst("powf err/bound (mantissa, t) lattice", worst, || json!({"x": wc.0, "y": wc.1}));
        });
        rep.acc.merge(acc);
    }
    rep.acc.sample(json!({"fn":"cbrtf","domain":"every one of the 2^32 f32 bit patterns","oracle":"f64 cbrt, <= 1 ulp, bitwise oddness"}));
    rep.exhaustive = false;
    rep.bound = format!(
        "cbrtf and expf: all 2^32 bit patterns (completely exhaustive); powf: {} for each of the 12 exponents the library uses, base 10 over the C03 stratum for both log curves, the full product of 254 exponents x {nm} mantissas x 1601 y-values (-80..80 step 0.1), y = +-2^-k, +-1.5*2^-k, +-80*2^-k (k = 0..40) x 254 exponents x 64 mantissas, the lattice of 6 exponents x 2^10 (thorough 2^12) mantissas x every t = y*log2(x) = k + j/256 (thorough j/1024; plus both sides of 0 and 1/2) with |y| <= 80, and {}^2 special x special pairs for totality",
        tier.pick("every positive normal x with low 8 mantissa bits zero (8.3 M values)", "EVERY positive normal x (2.13e9 values)"),
        specials().len()
    );
    rep.rule = "direct calls of yuvxyb_math::{cbrtf,powf,expf} (hook armed, each inside catch_unwind) vs f64 libm at the contract's own bounds".into();
    rep.assumptions = vec!["f64 libm cbrt/pow/exp are accurate to < 1e-15 relative".into(), "powf over (x,y) is bounded by the stated grids; cbrtf/expf are complete".into()];
    rep.guard_bucket("cbrtf normal: within 1 ulp and odd");
    rep.guard_bucket("expf [-85,85]: relative error <= 1e-5");
    rep.guard_bucket("expf [89,1e38]: +inf");
    rep.guard_bucket("expf [-1e38,-88]: 0");
    rep.guard_bucket("powf fixed exponent: within bound");
    rep.guard_bucket("powf (x,y) product: within bound");
    rep.guard_bucket("powf, y of every magnitude: within bound");
    if !light() {
        rep.guard_bucket("powf (mantissa, t = y*log2 x) lattice: within bound");
    }
    rep
}

pub fn replay(case: &Value) -> (bool, String) {
    let x = f32::from_bits(case["x"].as_u64().unwrap() as u32);
    let mut acc = Acc::default();
    match case["fn"].as_str().unwrap() {
        "cbrtf" => cbrt_chunk(&mut acc, x.to_bits() as u64, x.to_bits() as u64 + 1),
        "expf" => exp_chunk(&mut acc, x.to_bits() as u64, x.to_bits() as u64 + 1),
        _ => {
            let y = f32::from_bits(case["y"].as_u64().unwrap() as u32);
            let mut w = 0.0;
            let mut wc = (0, 0);
            pow_one(&mut acc, 0, x, y, &mut w, &mut wc);
        }
    }
    match acc.viols.values().next() {
        Some(v) => (true, format!("{} :: {}", v.key, v.detail)),
        None => (false, "ok".into()),
    }
}
