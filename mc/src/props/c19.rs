//! C19 — the 3x3 matrix/vector algebra agrees with its mathematical definition.

use crate::explore::*;
use crate::refmodel::{m3_det, m3_mul, m3_vec, M3, V3};
use serde_json::{json, Value};

const E7: [f64; 7] = [-2.0, -1.0, -0.5, 0.0, 0.5, 1.0, 2.0];
const E5: [f64; 5] = [-2.0, -0.5, 0.0, 1.0, 1.5];
const ND5: [f64; 5] = [-1.7, -0.3, 0.1, 0.7, 1.9];
const T3: [f64; 3] = [-1.0, 0.0, 1.0];

fn mat_from_index(alpha: &[f64], mut i: u64) -> M3 {
    let n = alpha.len() as u64;
    let mut m = [[0.0; 3]; 3];
    for k in (0..9).rev() {
        m[k / 3][k % 3] = alpha[(i % n) as usize];
        i /= n;
    }
    m
}
fn vec_from_index(alpha: &[f64], mut i: u64) -> V3 {
    let n = alpha.len() as u64;
    let mut v = [0.0; 3];
    for k in (0..3).rev() {
        v[k] = alpha[(i % n) as usize];
        i /= n;
    }
    v
}

fn close(got: f64, exact: f64) -> bool {
    (got - exact).abs() <= 1e-5 * exact.abs().max(1.0)
}

fn mj(m: &M3) -> Value {
    json!(m.iter().map(|r| r.to_vec()).collect::<Vec<_>>())
}

macro_rules! instantiate {
    ($modname:ident, $t:ty, $tname:expr) => {
        pub mod $modname {
            use super::*;
            use yuvxyb_math::{ColVector, Matrix, RowVector};
            pub const TNAME: &str = $tname;

            pub fn mk(m: &M3) -> Matrix<$t> {
                Matrix::new(
                    RowVector::new(m[0][0] as $t, m[0][1] as $t, m[0][2] as $t),
                    RowVector::new(m[1][0] as $t, m[1][1] as $t, m[1][2] as $t),
                    RowVector::new(m[2][0] as $t, m[2][1] as $t, m[2][2] as $t),
                )
            }
            pub fn back(m: Matrix<$t>) -> M3 {
                let v = m.values();
                let mut o = [[0.0f64; 3]; 3];
                for r in 0..3 {
                    for c in 0..3 {
                        o[r][c] = v[r][c] as f64;
                    }
                }
                o
            }
            /// rounded-to-T copy of the alphabet matrix (what the library actually receives)
            pub fn rounded(m: &M3) -> M3 {
                back(mk(m))
            }

            /// scalar_div by a divisor of any magnitude: entries k*d (computed in T, so they are what the
            /// library receives), exact quotient from those entries in f64. Cases whose exact quotient is
            /// not finite in T are outside the law and skipped. Returns the number of calls made.
            pub fn check_div(ks: V3, d0: f64) -> Result<u64, (String, String)> {
                let d = d0 as $t;
                if d == 0.0 || !d.is_finite() {
                    return Ok(0);
                }
                let e: [$t; 3] = [(ks[0] * d0) as $t, (ks[1] * d0) as $t, (ks[2] * d0) as $t];
                if e.iter().any(|x| !(x.abs() <= 2.0)) {
                    return Ok(0);
                }
                let exact: [f64; 3] = [e[0] as f64 / d as f64, e[1] as f64 / d as f64, e[2] as f64 / d as f64];
                if exact.iter().any(|q| !(q.abs() <= <$t>::MAX as f64 / 4.0)) {
                    return Ok(0);
                }
                let got = RowVector::new(e[0], e[1], e[2]).scalar_div(d).values();
                for k in 0..3 {
                    if !close(got[k] as f64, exact[k]) {
                        return Err(("scalar_div".into(), format!("component {k}: {:e} / {:e} = {:e} expected {:e}", e[k], d, got[k], exact[k])));
                    }
                }
                let m = Matrix::new(RowVector::new(e[0], e[1], e[2]), RowVector::new(e[1], e[2], e[0]), RowVector::new(e[2], e[0], e[1])).scalar_div(d).values();
                for r in 0..3 {
                    for c in 0..3 {
                        if !close(m[r][c] as f64, exact[(r + c) % 3]) {
                            return Err(("matrix-scalar_div".into(), format!("[{r}][{c}]: {:e} / {:e} = {:e} expected {:e}", e[(r + c) % 3], d, m[r][c], exact[(r + c) % 3])));
                        }
                    }
                }
                Ok(2)
            }

            /// All single-matrix laws. Returns Err((law, detail)).
            pub fn check_matrix(m0: &M3, vecs: &[V3]) -> Result<(u64, bool), (String, String)> {
                let m = rounded(m0);
                let a = mk(&m);
                let mut calls = 0u64;
                // transpose: definition and involution (exact)
                let t = back(a.clone().transpose());
                for r in 0..3 {
                    for c in 0..3 {
                        if t[r][c] != m[c][r] {
                            return Err(("transpose".into(), format!("transpose[{r}][{c}] = {} but source[{c}][{r}] = {}", t[r][c], m[c][r])));
                        }
                    }
                }
                if back(a.clone().transpose().transpose()) != m {
                    return Err(("transpose-involution".into(), "transpose(transpose(A)) != A".into()));
                }
                // identity is neutral (exact, compared by value)
                let id = Matrix::<$t>::identity();
                if back(a.mul_mat(id.clone())) != m || back(id.mul_mat(a.clone())) != m {
                    return Err(("identity".into(), format!("A*I = {:?}, I*A = {:?}", back(a.mul_mat(id.clone())), back(id.mul_mat(a.clone())))));
                }
                calls += 4;
                // scalar_div is element-wise
                for s in [-2.0f64, 0.5, 3.0] {
                    let d = back(a.scalar_div(s as $t));
                    for r in 0..3 {
                        for c in 0..3 {
                            if !close(d[r][c], m[r][c] / s) {
                                return Err(("matrix-scalar_div".into(), format!("[{r}][{c}] / {s} = {} expected {}", d[r][c], m[r][c] / s)));
                            }
                        }
                    }
                    calls += 1;
                }
                // mul_vec / mul_arr
                for v in vecs {
                    let exact = m3_vec(&m, *v);
                    let cv = ColVector::new(v[0] as $t, v[1] as $t, v[2] as $t);
                    let g1 = a.mul_vec(&cv).values();
                    let g2 = a.mul_arr([v[0] as $t, v[1] as $t, v[2] as $t]);
                    for k in 0..3 {
                        if !close(g1[k] as f64, exact[k]) {
                            return Err(("mul_vec".into(), format!("v={v:?}: component {k} = {} expected {}", g1[k], exact[k])));
                        }
                        if !close(g2[k] as f64, exact[k]) {
                            return Err(("mul_arr".into(), format!("v={v:?}: component {k} = {} expected {}", g2[k], exact[k])));
                        }
                    }
                    calls += 2;
                }
                // inverse
                let det = m3_det(&m);
                let mut inverted = false;
                if det.abs() >= 0.5 {
                    inverted = true;
                    let inv = a.invert();
                    let p1 = back(a.mul_mat(inv.clone()));
                    let p2 = back(inv.clone().mul_mat(a.clone()));
                    for r in 0..3 {
                        for c in 0..3 {
                            let want = if r == c { 1.0 } else { 0.0 };
                            if !((p1[r][c] - want).abs() <= 1e-4) {
                                return Err(("invert".into(), format!("(A*inv(A))[{r}][{c}] = {} (det {det})", p1[r][c])));
                            }
                            if !((p2[r][c] - want).abs() <= 1e-4) {
                                return Err(("invert".into(), format!("(inv(A)*A)[{r}][{c}] = {} (det {det})", p2[r][c])));
                            }
                        }
                    }
                    calls += 3;
                }
                Ok((calls, inverted))
            }

            pub fn check_mul_mat(a0: &M3, b0: &M3) -> Result<(), (String, String)> {
                let (a, b) = (rounded(a0), rounded(b0));
                let exact = m3_mul(&a, &b);
                let got = back(mk(&a).mul_mat(mk(&b)));
                for r in 0..3 {
                    for c in 0..3 {
                        if !close(got[r][c], exact[r][c]) {
                            return Err(("mul_mat".into(), format!("(A*B)[{r}][{c}] = {} expected {}", got[r][c], exact[r][c])));
                        }
                    }
                }
                Ok(())
            }

            pub fn check_vec_pair(a0: V3, b0: V3) -> Result<(), (String, String)> {
                let a = [a0[0] as $t as f64, a0[1] as $t as f64, a0[2] as $t as f64];
                let b = [b0[0] as $t as f64, b0[1] as $t as f64, b0[2] as $t as f64];
                let ra = RowVector::new(a[0] as $t, a[1] as $t, a[2] as $t);
                let rb = RowVector::new(b[0] as $t, b[1] as $t, b[2] as $t);
                let cross = ra.cross(&rb).values();
                let ec = [a[1] * b[2] - a[2] * b[1], a[2] * b[0] - a[0] * b[2], a[0] * b[1] - a[1] * b[0]];
                let cm = ra.component_mul(&rb).values();
                for k in 0..3 {
                    if !close(cross[k] as f64, ec[k]) {
                        return Err(("cross".into(), format!("component {k} = {} expected {}", cross[k], ec[k])));
                    }
                    if !close(cm[k] as f64, a[k] * b[k]) {
                        return Err(("component_mul".into(), format!("component {k} = {} expected {}", cm[k], a[k] * b[k])));
                    }
                }
                let dot = ra.dot(&rb) as f64;
                let ed = a[0] * b[0] + a[1] * b[1] + a[2] * b[2];
                if !close(dot, ed) {
                    return Err(("dot".into(), format!("{dot} expected {ed}")));
                }
                for s in b.iter().copied().filter(|s| *s != 0.0) {
                    let d = ra.scalar_div(s as $t).values();
                    for k in 0..3 {
                        if !close(d[k] as f64, a[k] / s) {
                            return Err(("scalar_div".into(), format!("component {k} / {s} = {} expected {}", d[k], a[k] / s)));
                        }
                    }
                }
                // accessors / conversions keep order
                if [ra.x() as f64, ra.y() as f64, ra.z() as f64] != a || RowVector::from([a[0] as $t, a[1] as $t, a[2] as $t]).values().map(|v| v as f64) != a {
                    return Err(("rowvector-accessors".into(), "x/y/z or From<[T;3]> reorder components".into()));
                }
                let cv = ColVector::from([a[0] as $t, a[1] as $t, a[2] as $t]);
                if [cv.r() as f64, cv.g() as f64, cv.b() as f64] != a || cv.transpose().values().map(|v| v as f64) != a {
                    return Err(("colvector-accessors".into(), "r/g/b, From or transpose reorder components".into()));
                }
                Ok(())
            }
        }
    };
}

instantiate!(f32i, f32, "f32");
instantiate!(f64i, f64, "f64");

fn colour_matrices() -> Vec<M3> {
    use crate::refmodel::*;
    let mut v: Vec<M3> = vec![BRADFORD, OPSIN, I3];
    for m in STD_MATRICES {
        // RGB -> YPbPr matrix rows
        let r = rgb_to_ypbpr(m, [1.0, 0.0, 0.0]);
        let g = rgb_to_ypbpr(m, [0.0, 1.0, 0.0]);
        let b = rgb_to_ypbpr(m, [0.0, 0.0, 1.0]);
        v.push([[r[0], g[0], b[0]], [r[1], g[1], b[1]], [r[2], g[2], b[2]]]);
    }
    for p in SUPPORTED_PRIMARIES {
        v.push(rgb_to_xyz(p).unwrap());
    }
    v
}

fn record(acc: &mut Acc, idx: u64, t: &str, set: &str, r: Result<(), (String, String)>, case: impl FnOnce() -> Value) -> bool {
    if let Err((law, detail)) = r {
        acc.violation(idx, format!("algebra law={law} type={t}"), format!("[{set}] {detail}"), case());
        acc.bucket("law violated", 1);
        false
    } else {
        true
    }
}

fn matrix_sweep(rep: &mut Report, alpha: &'static [f64], valpha: &'static [f64], name: &str, base: u64) -> u64 {
    let n = (alpha.len() as u64).pow(9);
    let vecs: Vec<V3> = (0..(valpha.len() as u64).pow(3)).map(|i| vec_from_index(valpha, i)).collect();
    let acc = par_chunks(n, 1 << 12, |acc, lo, hi| {
        let (mut inv32, mut inv64, mut calls) = (0u64, 0u64, 0u64);
        for i in lo..hi {
            let m = mat_from_index(alpha, i);
            let case = || json!({"kind":"c19","op":"matrix","m":mj(&m),"valpha":valpha});
            match f32i::check_matrix(&m, &vecs) {
                Ok((c, inv)) => {
                    calls += c;
                    inv32 += inv as u64;
                }
                Err(e) => {
                    record(acc, base + i, "f32", name, Err(e), case);
                    return;
                }
            }
            match f64i::check_matrix(&m, &vecs) {
                Ok((c, inv)) => {
                    calls += c;
                    inv64 += inv as u64;
                }
                Err(e) => {
                    record(acc, base + i, "f64", name, Err(e), case);
                    return;
                }
            }
        }
        acc.states += hi - lo;
        acc.transitions += calls;
        acc.bucket(&format!("{name}: matrices obeying all single-matrix laws (f32 and f64)"), hi - lo);
        acc.bucket(&format!("{name}: |det| >= 0.5, inverse checked"), inv32.min(inv64));
        acc.bucket(&format!("{name}: |det| < 0.5, inverse not required"), (hi - lo) - inv32.min(inv64));
        if lo == 0 {
            acc.sample(json!({"set": name, "matrix": mj(&mat_from_index(alpha, hi - 1)), "vectors": vecs.len(), "laws": "transpose, involution, identity, scalar_div, mul_vec, mul_arr, invert (|det|>=0.5)"}));
        }
    });
    rep.acc.merge(acc);
    n
}

pub fn run(tier: Tier) -> Report {
    let mut rep = Report::new("C19");
    let mut base = 0u64;
    // library colour matrices first
    {
        let mut acc = Acc::default();
        let vecs: Vec<V3> = (0..343).map(|i| vec_from_index(&E7, i)).collect();
        let cms = colour_matrices();
        for (i, m) in cms.iter().enumerate() {
            let case = || json!({"kind":"c19","op":"matrix","m":mj(m),"valpha":E7});
            let ok = record(&mut acc, i as u64, "f32", "colour", f32i::check_matrix(m, &vecs).map(|_| ()), case)
                && record(&mut acc, i as u64, "f64", "colour", f64i::check_matrix(m, &vecs).map(|_| ()), case);
            if ok {
                acc.bucket("colour/primaries/Bradford/opsin matrices obeying all laws", 1);
            }
            acc.states += 1;
            for m2 in cms.iter() {
                let case = || json!({"kind":"c19","op":"mul_mat","a":mj(m),"b":mj(m2)});
                record(&mut acc, i as u64, "f32", "colour", f32i::check_mul_mat(m, m2), case);
                record(&mut acc, i as u64, "f64", "colour", f64i::check_mul_mat(m, m2), case);
                acc.transitions += 2;
            }
        }
        rep.acc.merge(acc);
        base += 100;
    }
    // vector pairs
    {
        let nv = 343u64;
        let acc = par_chunks(nv * nv, 1 << 12, |acc, lo, hi| {
            for i in lo..hi {
                let (a, b) = (vec_from_index(&E7, i / nv), vec_from_index(&E7, i % nv));
                let case = || json!({"kind":"c19","op":"vec","a":a,"b":b});
                if !record(acc, base + i, "f32", "E7 pairs", f32i::check_vec_pair(a, b), case) || !record(acc, base + i, "f64", "E7 pairs", f64i::check_vec_pair(a, b), case) {
                    return;
                }
            }
            acc.states += hi - lo;
            acc.transitions += 12 * (hi - lo);
            acc.bucket("vector pairs: cross, dot, component_mul, scalar_div, accessors agree", hi - lo);
        });
        rep.acc.merge(acc);
        base += nv * nv;
        let nv = 125u64;
        let acc = par_chunks(nv * nv, 1 << 12, |acc, lo, hi| {
            for i in lo..hi {
                let (a, b) = (vec_from_index(&ND5, i / nv), vec_from_index(&ND5, i % nv));
                let case = || json!({"kind":"c19","op":"vec","a":a,"b":b});
                if !record(acc, base + i, "f32", "non-dyadic pairs", f32i::check_vec_pair(a, b), case) || !record(acc, base + i, "f64", "non-dyadic pairs", f64i::check_vec_pair(a, b), case) {
                    return;
                }
            }
            acc.states += hi - lo;
            acc.transitions += 12 * (hi - lo);
            acc.bucket("vector pairs: cross, dot, component_mul, scalar_div, accessors agree", hi - lo);
        });
        rep.acc.merge(acc);
        base += nv * nv;
    }
    // divisors of every magnitude: +-2^e and +-1.5*2^e for every exponent of the type (subnormals included),
    // against every vector (k1*d, k2*d, k3*d), k in E7, whose entries lie in [-2,2]
    {
        let divisors: Vec<f64> = (-1075i32..=1023).flat_map(|e| [2f64.powi(e), 1.5 * 2f64.powi(e), -(2f64.powi(e)), -1.5 * 2f64.powi(e)]).filter(|d| *d != 0.0 && d.is_finite()).collect();
        let nd = divisors.len() as u64;
        let acc = par_chunks(nd, 16, |acc, lo, hi| {
            let mut calls = 0u64;
            for i in lo..hi {
                let d = divisors[i as usize];
                for vi in 0..343u64 {
                    let ks = vec_from_index(&E7, vi);
                    let case = || json!({"kind":"c19","op":"div","k":ks,"d_bits":format!("{:016x}", d.to_bits())});
                    for (t, r) in [("f32", f32i::check_div(ks, d)), ("f64", f64i::check_div(ks, d))] {
                        match r {
                            Ok(c) => calls += c,
                            Err(e) => {
                                record(acc, base + i, t, "divisor magnitudes", Err(e), case);
                                return;
                            }
                        }
                    }
                }
            }
            acc.states += (hi - lo) * 343;
            acc.transitions += calls;
            acc.bucket("scalar_div by +-2^e, +-1.5*2^e over the whole exponent range: element-wise", (hi - lo) * 343);
        });
        rep.acc.merge(acc);
        base += nd;
    }
    // matrices
    base += match tier {
        Tier::Quick => matrix_sweep(&mut rep, &E5, &E5, "E'={-2,-.5,0,1,1.5}^9 x E'^3", base),
        Tier::Thorough => matrix_sweep(&mut rep, &E7, &E7, "E={-2,-1,-.5,0,.5,1,2}^9 x E^3", base),
    };
    if !light() {
        base += matrix_sweep(&mut rep, &ND5, &ND5, "non-dyadic {-1.7,-.3,.1,.7,1.9}^9 x same^3", base);
    }
    // near-identity / near-singular-structure family: s*(I + eps*B), B over {-1,0,1}^9 — the inverse
    // has small but non-zero entries of size eps (structured matrices of the property's quantifier)
    {
        let nb = 19683u64;
        let eps_list = [5e-5f64, 1.2e-4, 1e-3, 0.03];
        let acc = par_chunks(nb * eps_list.len() as u64 * 2, 1 << 10, |acc, lo, hi| {
            let vecs: Vec<V3> = vec![[1.0, 0.0, 0.0], [0.0, 1.0, 0.0], [0.0, 0.0, 1.0], [1.0, 1.0, 1.0], [-2.0, 0.5, 1.0]];
            let mut n = 0;
            for i in lo..hi {
                let b = mat_from_index(&T3, i % nb);
                let eps = eps_list[((i / nb) % eps_list.len() as u64) as usize];
                let s = if i / (nb * eps_list.len() as u64) == 0 { 1.0 } else { 2.0 };
                let mut m = [[0.0; 3]; 3];
                for r in 0..3 {
                    for c in 0..3 {
                        m[r][c] = s * (if r == c { 1.0 } else { 0.0 } + eps * b[r][c]);
                    }
                }
                let case = || json!({"kind":"c19","op":"matrix","m":mj(&m),"valpha":[1.0, 0.0, -1.0]});
                let v3: Vec<V3> = (0..27).map(|k| vec_from_index(&[1.0, 0.0, -1.0], k)).collect();
                let _ = &vecs;
                if !record(acc, base + i, "f32", "near-identity", f32i::check_matrix(&m, &v3).map(|_| ()), case) || !record(acc, base + i, "f64", "near-identity", f64i::check_matrix(&m, &v3).map(|_| ()), case) {
                    return;
                }
                n += 1;
            }
            acc.states += n;
            acc.transitions += n * 60;
            acc.bucket("near-identity family s*(I+eps*B): all laws incl. inverse", n);
        });
        rep.acc.merge(acc);
        base += nb * eps_list.len() as u64 * 2;
        // products with a factor that is ALMOST the identity (closer than the laws' own tolerance):
        // (I + eps*B) * A and A * (I + eps*B) for eps down to 1e-6 against eight fixed full matrices
        let small_eps = [1e-5f64, 6e-6, 2e-6, 1e-6];
        let partners: Vec<M3> = vec![
            [[2.0, -1.0, 0.5], [1.5, 2.0, -2.0], [-0.5, 1.0, 2.0]],
            [[-2.0, 2.0, 2.0], [2.0, -2.0, 2.0], [2.0, 2.0, -2.0]],
            [[0.2126, 0.7152, 0.0722], [-0.1146, -0.3854, 0.5], [0.5, -0.4542, -0.0458]],
            [[1.0, 0.0, 1.5748], [1.0, -0.1873, -0.4681], [1.0, 1.8556, 0.0]],
            [[0.3, -1.7, 0.1], [1.9, 0.7, -0.3], [-1.7, 0.1, 1.9]],
            [[0.0, 1.0, 0.0], [0.0, 0.0, 1.0], [1.0, 0.0, 0.0]],
            [[2.0, 0.0, 0.0], [0.0, -0.5, 0.0], [0.0, 0.0, 1.5]],
            [[1.0, 1.0, 1.0], [1.0, 1.0, 1.0], [1.0, 1.0, 1.0]],
        ];
        let total = nb * small_eps.len() as u64;
        let acc = par_chunks(total, 1 << 10, |acc, lo, hi| {
            for i in lo..hi {
                let b = mat_from_index(&T3, i % nb);
                let eps = small_eps[(i / nb) as usize];
                let mut nm = [[0.0; 3]; 3];
                for r in 0..3 {
                    for c in 0..3 {
                        nm[r][c] = if r == c { 1.0 } else { 0.0 } + eps * b[r][c];
                    }
                }
                for a in &partners {
                    for (x, y) in [(&nm, a), (a, &nm)] {
                        let case = || json!({"kind":"c19","op":"mul_mat","a":mj(x),"b":mj(y)});
                        if !record(acc, base + i, "f32", "almost-identity factor", f32i::check_mul_mat(x, y), case) || !record(acc, base + i, "f64", "almost-identity factor", f64i::check_mul_mat(x, y), case) {
                            return;
                        }
                    }
                }
            }
            acc.states += hi - lo;
            acc.transitions += (hi - lo) * 32;
            acc.bucket("mul_mat with an almost-identity factor (eps 1e-6..1e-5): exact product", hi - lo);
        });
        rep.acc.merge(acc);
        base += total;
    }
    // mul_mat over {-1,0,1}^9 pairs
    {
        let na = 19683u64;
        let nb: u64 = tier.pick(729, 19683);
        let acc = par_chunks(na * nb, 1 << 14, |acc, lo, hi| {
            for i in lo..hi {
                let a = mat_from_index(&T3, i / nb);
                // quick: the 729 right-hand matrices are every 27th of the 19683 (all first-row/second-row patterns)
                let b = mat_from_index(&T3, (i % nb) * (na / nb));
                let case = || json!({"kind":"c19","op":"mul_mat","a":mj(&a),"b":mj(&b)});
                if !record(acc, base + i, "f32", "{-1,0,1}^9 pairs", f32i::check_mul_mat(&a, &b), case) || !record(acc, base + i, "f64", "{-1,0,1}^9 pairs", f64i::check_mul_mat(&a, &b), case) {
                    return;
                }
            }
            acc.states += hi - lo;
            acc.transitions += 2 * (hi - lo);
            acc.bucket("mul_mat pairs over {-1,0,1}^9 exact", hi - lo);
        });
        rep.acc.merge(acc);
        base += na * nb;
        // non-dyadic: A * A^T and A * fixed 125 matrices (first row varies)
        let nn = 5u64.pow(9);
        let acc = par_chunks(nn, 1 << 12, |acc, lo, hi| {
            for i in lo..hi {
                let a = mat_from_index(&ND5, i);
                let at = [[a[0][0], a[1][0], a[2][0]], [a[0][1], a[1][1], a[2][1]], [a[0][2], a[1][2], a[2][2]]];
                let b = mat_from_index(&ND5, (i * 7919) % nn);
                for bb in [&at, &b] {
                    let case = || json!({"kind":"c19","op":"mul_mat","a":mj(&a),"b":mj(bb)});
                    if !record(acc, base + i, "f32", "non-dyadic products", f32i::check_mul_mat(&a, bb), case) || !record(acc, base + i, "f64", "non-dyadic products", f64i::check_mul_mat(&a, bb), case) {
                        return;
                    }
                }
            }
            acc.states += hi - lo;
            acc.transitions += 4 * (hi - lo);
            acc.bucket("mul_mat non-dyadic (A*A^T, A*B_sigma(A)) within 1e-5", hi - lo);
        });
        rep.acc.merge(acc);
    }
    rep.bound = format!(
        "all {} matrices over the {} alphabet x all vectors over it (mul_vec, mul_arr, transpose, identity, scalar_div, invert when |det|>=0.5); all 5^9 matrices over the non-dyadic alphabet x 125 vectors; the near-identity family s*(I+eps*B) for all B in {{-1,0,1}}^9, eps in {{5e-5,1.2e-4,1e-3,0.03}}, s in {{1,2}}; (I+eps*B)*A and A*(I+eps*B) for eps in {{1e-5,6e-6,2e-6,1e-6}} against eight full matrices; all 343^2 + 125^2 vector pairs; scalar_div by +-2^e and +-1.5*2^e for every exponent of f32 and f64 (subnormal included) of all 343 vectors (k1 d, k2 d, k3 d) with entries in [-2,2]; mul_mat on {} pairs over {{-1,0,1}}^9 and on A*A^T, A*B for all 5^9 non-dyadic A (B = the matrix at index 7919*i mod 5^9, a fixed bijection); the library's {} colour matrices pairwise; every case for f32 and f64",
        tier.pick(5u64.pow(9), 7u64.pow(9)), tier.pick("5-value", "7-value"), 19683u64 * tier.pick(729, 19683), colour_matrices().len()
    );
    rep.rule = "public methods of yuvxyb_math::{Matrix,RowVector,ColVector} vs f64 definitions: 1e-5*max(1,|exact|) per entry; A*inv(A), inv(A)*A within 1e-4 of I; transpose and identity exact".into();
    rep.assumptions = vec!["entries in [-2,2] are bounded by the stated finite alphabets (dyadic and non-dyadic)".into()];
    rep.guard("inverse exercised", rep.acc.buckets.iter().any(|(k, v)| k.contains("inverse checked") && *v > 0));
    rep.guard("singular matrices filtered", rep.acc.buckets.iter().any(|(k, v)| k.contains("inverse not required") && *v > 0));
    rep.guard_bucket("mul_mat pairs over {-1,0,1}^9 exact");
    rep.guard_bucket("near-identity family s*(I+eps*B): all laws incl. inverse");
    rep.guard_bucket("mul_mat with an almost-identity factor (eps 1e-6..1e-5): exact product");
    rep.guard_bucket("vector pairs: cross, dot, component_mul, scalar_div, accessors agree");
    rep.guard_bucket("scalar_div by +-2^e, +-1.5*2^e over the whole exponent range: element-wise");
    rep
}

fn m_from(v: &Value) -> M3 {
    let mut m = [[0.0; 3]; 3];
    for r in 0..3 {
        for c in 0..3 {
            m[r][c] = v[r][c].as_f64().unwrap();
        }
    }
    m
}
fn v_from(v: &Value) -> V3 {
    [v[0].as_f64().unwrap(), v[1].as_f64().unwrap(), v[2].as_f64().unwrap()]
}

pub fn replay(case: &Value) -> (bool, String) {
    let mut res: Vec<(&str, Result<(), (String, String)>)> = vec![];
    match case["op"].as_str().unwrap() {
        "matrix" => {
            let m = m_from(&case["m"]);
            let va: Vec<f64> = case["valpha"].as_array().unwrap().iter().map(|x| x.as_f64().unwrap()).collect();
            let vecs: Vec<V3> = (0..(va.len() as u64).pow(3)).map(|i| vec_from_index(&va, i)).collect();
            res.push(("f32", f32i::check_matrix(&m, &vecs).map(|_| ())));
            res.push(("f64", f64i::check_matrix(&m, &vecs).map(|_| ())));
        }
        "div" => {
            let ks = v_from(&case["k"]);
            let d = f64::from_bits(u64::from_str_radix(case["d_bits"].as_str().unwrap(), 16).unwrap());
            res.push(("f32", f32i::check_div(ks, d).map(|_| ())));
            res.push(("f64", f64i::check_div(ks, d).map(|_| ())));
        }
        "mul_mat" => {
            let (a, b) = (m_from(&case["a"]), m_from(&case["b"]));
            res.push(("f32", f32i::check_mul_mat(&a, &b)));
            res.push(("f64", f64i::check_mul_mat(&a, &b)));
        }
        _ => {
            let (a, b) = (v_from(&case["a"]), v_from(&case["b"]));
            res.push(("f32", f32i::check_vec_pair(a, b)));
            res.push(("f64", f64i::check_vec_pair(a, b)));
        }
    }
    for (t, r) in res {
        if let Err((law, d)) = r {
            return (true, format!("algebra law={law} type={t} :: {d}"));
        }
    }
    (false, "ok".into())
}
