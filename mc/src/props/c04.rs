//! C04 — linear RGB->XYB equals the JPEG XL opsin definition.
//! C05 — XYB->linear RGB inverts the forward transform.

use crate::explore::*;
use crate::refmodel::*;
use serde_json::{json, Value};
use yuvxyb::{LinearRgb, Xyb};

/// Per-axis alphabet on [0, top]: 0, the smallest subnormal and normal, top*2^-k (k=1..40) and a
/// uniform grid of `n` points including both ends.
pub fn axis(top: f32, n: u32) -> Vec<f32> {
    let mut v = vec![0.0f32, f32::from_bits(1), f32::MIN_POSITIVE];
    for k in 1..=40 {
        v.push(top * 2f32.powi(-k));
    }
    for i in 0..n {
        v.push((top as f64 * i as f64 / (n - 1) as f64) as f32);
    }
    v.sort_by(|a, b| a.partial_cmp(b).unwrap());
    v.dedup();
    v
}

pub fn from_xyb(px: &[[f32; 3]]) -> Result<Vec<[f32; 3]>, String> {
    let len = px.len();
    let (w, h) = crate::img::shape_of(len);
    let xyb = Xyb::new(px.to_vec(), w, h).map_err(|e| format!("{e:?}"))?;
    let lin = guarded(|| LinearRgb::from(xyb))?;
    if lin.width() != w || lin.height() != h || lin.data().len() != len {
        return Err(format!("dims changed to {}x{}", lin.width(), lin.height()));
    }
    Ok(lin.data().to_vec())
}

pub fn to_xyb(px: &[[f32; 3]]) -> Result<Vec<[f32; 3]>, String> {
    let len = px.len();
    let (w, h) = crate::img::shape_of(len);
    let lin = LinearRgb::new(px.to_vec(), w, h).map_err(|e| format!("{e:?}"))?;
    let xyb = guarded(|| Xyb::from(lin))?;
    if xyb.width() != w || xyb.height() != h || xyb.data().len() != len {
        return Err(format!("dims changed to {}x{}", xyb.width(), xyb.height()));
    }
    Ok(xyb.data().to_vec())
}

fn check_fwd(acc: &mut Acc, stratum: &str, base: u64, px: &[[f32; 3]]) {
    let mk = |p: [f32; 3]| json!({"kind":"c04","rgb":px3j(p)});
    acc.states += px.len() as u64;
    acc.transitions += px.len() as u64;
    let out = match to_xyb(px) {
        Ok(o) => o,
        Err(e) => {
            acc.violation(base, format!("xyb-failed {}", panic_site(&e)), e, mk(px[0]));
            return;
        }
    };
    let mut worst = 0.0;
    let mut wp = px[0];
    for i in 0..px.len() {
        let exp = lrgb_to_xyb([px[i][0] as f64, px[i][1] as f64, px[i][2] as f64]);
        let mut e = 0.0f64;
        for k in 0..3 {
            let d = (out[i][k] as f64 - exp[k]).abs();
            e = if d.is_nan() { f64::INFINITY } else { e.max(d) };
        }
        if e > worst {
            worst = e;
            wp = px[i];
        }
        if e > 2e-6 {
            acc.violation(
                base + i as u64,
                format!("xyb-mismatch stratum={stratum}"),
                format!("rgb={} -> {}, definition gives [{:.9}, {:.9}, {:.9}]: error {e:.3e} > 2e-6", px3s(px[i]), px3s(out[i]), exp[0], exp[1], exp[2]),
                mk(px[i]),
            );
            acc.bucket("mismatch", 1);
            return;
        }
    }
    acc.bucket(&format!("{stratum}: within 2e-6"), px.len() as u64);
    acc.worst(&format!("abs_err {stratum}"), worst, || mk(wp));
}

fn pxs_json(it: &[[f32; 3]]) -> Value {
    json!(it.iter().map(|p| px3j(*p)).collect::<Vec<_>>())
}
fn pxs_from(v: &Value) -> Vec<[f32; 3]> {
    v.as_array().unwrap().iter().map(px3_from).collect()
}

pub fn run(tier: Tier) -> Report {
    let mut rep = Report::new("C04");
    let a = axis(4.0, tier.pick(if light() { 56 } else { 200 }, 1500));
    let al = a.len() as u64;
    let total = al * al * al;
    let acc = par_chunks_varied(total, 1 << 15, |acc, lo, hi| {
        let px: Vec<[f32; 3]> = (lo..hi).map(|i| [a[(i / (al * al)) as usize], a[((i / al) % al) as usize], a[(i % al) as usize]]).collect();
        check_fwd(acc, "cube[0,4]", lo, &px);
        crate::img::echo_check(acc, lo, "Xyb::from(LinearRgb)", &px, &|p| to_xyb(p), "c04echo", &json!({}));
        crate::img::refine_violations(acc, lo, &px, 1, &|a, it| check_fwd(a, "cube[0,4]", 0, it), &pxs_json);
        if lo == 0 {
            let p = px[px.len() / 2];
            acc.sample(json!({"rgb": px3s(p), "definition_xyb": lrgb_to_xyb([p[0] as f64, p[1] as f64, p[2] as f64]).to_vec()}));
        }
    });
    rep.acc.merge(acc);
    for &big in BIG_SIZES.iter() {
        let px: Vec<[f32; 3]> = (0..big as u64).map(|k| { let i = (k * 7919) % total; [a[(i / (al * al)) as usize], a[((i / al) % al) as usize], a[(i % al) as usize]] }).collect();
        let mut acc = Acc::default();
        check_fwd(&mut acc, "large-image", 0, &px);
        crate::img::refine_violations(&mut acc, 0, &px, 1, &|x, it| check_fwd(x, "large-image", 0, it), &pxs_json);
        let a1 = axis(1.0, 60);
        let l1 = a1.len() as u64;
        let px1: Vec<[f32; 3]> = (0..big as u64).map(|k| { let i = (k * 7919) % (l1 * l1 * l1); [a1[(i / (l1 * l1)) as usize], a1[((i / l1) % l1) as usize], a1[(i % l1) as usize]] }).collect();
        check_rt(&mut acc, 0, &px1);
        crate::img::refine_violations(&mut acc, 0, &px1, 1, &|x, it| check_rt(x, 0, it), &pxs_json);
        rep.acc.merge(acc);
    }
    if !light() {
        let px = axis_sweeps(4.0);
        let n = px.len() as u64;
        let acc = par_chunks_varied(n, 1 << 14, |acc, lo, hi| {
            let it = &px[lo as usize..hi as usize];
            check_fwd(acc, "axis sweep", lo, it);
            crate::img::refine_violations(acc, lo, it, 1, &|a, x| check_fwd(a, "axis sweep", 0, x), &pxs_json);
        });
        rep.acc.merge(acc);
    }
    // negative stratum on [-1,4]^3
    let steps: u64 = tier.pick(if light() { 40 } else { 80 }, 200);
    let g: Vec<f32> = (0..=steps).map(|i| (-1.0 + 5.0 * i as f64 / steps as f64) as f32).collect();
    let gl = g.len() as u64;
    let ntotal = gl * gl * gl;
    let acc = par_chunks_varied(ntotal, 1 << 15, |acc, lo, hi| {
        let mut px = Vec::new();
        for i in lo..hi {
            let p = [g[(i / (gl * gl)) as usize], g[((i / gl) % gl) as usize], g[(i % gl) as usize]];
            if !p.iter().any(|&c| c < 0.0) {
                continue; // belongs to the cube stratum
            }
            let mix = opsin_mix([p[0] as f64, p[1] as f64, p[2] as f64]);
            if mix.iter().all(|&m| m <= -1e-3 || m >= 0.05) {
                for (k, m) in mix.iter().enumerate() {
                    if *m <= -1e-3 {
                        acc.bucket(&format!("negative stratum: mix {k} clamped at 0"), 1);
                    }
                }
                px.push(p);
            } else {
                acc.bucket("negative stratum: filtered as ill-conditioned (per the statement)", 1);
            }
        }
        if !px.is_empty() {
            check_fwd(acc, "negative[-1,4]", total + lo, &px);
            crate::img::refine_violations(acc, total + lo, &px, 1, &|a, it| check_fwd(a, "negative[-1,4]", 0, it), &pxs_json);
        }
    });
    rep.acc.merge(acc);
    rep.bound = format!(
        "full product of a {al}-value axis alphabet on [0,4] (0, min subnormal, min normal, 4*2^-k for k=1..40, uniform grid of {} points) = {total} pixels; plus every pixel of the {gl}^3 lattice on [-1,4]^3 that has a negative component and is well-conditioned per the statement",
        tier.pick(if light() { 56 } else { 200 }, 1500)
    );
    rep.rule = "Xyb::from(LinearRgb) on every pixel vs f64 cbrt(max(0, A*rgb+b)) - cbrt(b) with the constants quoted in C04, |error| <= 2e-6 per component, dims preserved".into();
    rep.assumptions = vec!["continuous cube bounded by the stated product alphabet (dense near black, where the cube root is steepest)".into()];
    rep.guard_bucket("cube[0,4]: within 2e-6");
    rep.guard_bucket("negative[-1,4]: within 2e-6");
    for k in 0..3 {
        rep.guard_bucket(&format!("negative stratum: mix {k} clamped at 0"));
    }
    rep
}

pub fn replay(case: &Value) -> (bool, String) {
    if case["kind"] == "c04echo" {
        return crate::img::echo_replay(case, &|p| to_xyb(p));
    }
    let mut acc = Acc::default();
    let (items, shape) = crate::img::replay_items(case, vec![px3_from(&case["rgb"])], &pxs_from);
    crate::img::with_shape(shape, || check_fwd(&mut acc, "replay", 0, &items));
    match acc.viols.values().next() {
        // stratum name is part of the key; recompute generically
        Some(v) => (true, format!("{} :: {}", v.key, v.detail)),
        None => (false, "ok".into()),
    }
}

// ------------------------------------------------------------------------------------------------
// C05

fn check_rt(acc: &mut Acc, base: u64, px: &[[f32; 3]]) {
    let mk = |p: [f32; 3]| json!({"kind":"c05","rgb":px3j(p)});
    acc.states += px.len() as u64;
    acc.transitions += 2 * px.len() as u64;
    let len = px.len();
    let res = (|| -> Result<Vec<[f32; 3]>, String> {
        let (w, h) = crate::img::shape_of(len);
        let lin = LinearRgb::new(px.to_vec(), w, h).map_err(|e| format!("{e:?}"))?;
        let back = guarded(|| LinearRgb::from(Xyb::from(lin)))?;
        if back.width() != w || back.height() != h || back.data().len() != len {
            return Err("dims changed".into());
        }
        Ok(back.data().to_vec())
    })();
    let out = match res {
        Ok(o) => o,
        Err(e) => {
            acc.violation(base, format!("xyb-roundtrip-failed {}", panic_site(&e)), e, mk(px[0]));
            return;
        }
    };
    let mut worst = 0.0;
    let mut wp = px[0];
    for i in 0..len {
        let mut e = 0.0f64;
        for k in 0..3 {
            let d = (out[i][k] as f64 - px[i][k] as f64).abs();
            e = if d.is_nan() { f64::INFINITY } else { e.max(d) };
        }
        if e > worst {
            worst = e;
            wp = px[i];
        }
        if e > 5e-5 {
            acc.violation(
                base + i as u64,
                "xyb-roundtrip".into(),
                format!("rgb={} -> XYB -> {}: error {e:.3e} > 5e-5", px3s(px[i]), px3s(out[i])),
                mk(px[i]),
            );
            acc.bucket("off", 1);
            return;
        }
    }
    acc.bucket("returned within 5e-5", len as u64);
    acc.worst("abs_err", worst, || mk(wp));
}

/// One channel swept finely (65,537 uniform points on [0,hi]) with the two others fixed at black,
/// at a very dark and at a mid value: shortcuts for "small" or "dominant" channels are thresholded
/// somewhere on an axis, between the points of a product lattice.
fn axis_sweeps(hi: f32) -> Vec<[f32; 3]> {
    let mut v = Vec::with_capacity(9 * 65_537);
    for c in 0..3 {
        for others in [[0.0f32, 0.0], [1e-4, 3e-4], [0.5, 0.25]] {
            for i in 0..=65_536u32 {
                let x = hi * i as f32 / 65_536.0;
                let mut p = [others[0], others[1], others[0]];
                p[(c + 1) % 3] = others[1];
                p[c] = x;
                v.push(p);
            }
        }
    }
    v
}

pub fn run_c05(tier: Tier) -> Report {
    let mut rep = Report::new("C05");
    let a = axis(1.0, tier.pick(if light() { 56 } else { 200 }, 1500));
    let al = a.len() as u64;
    let total = al * al * al;
    let acc = par_chunks_varied(total, 1 << 15, |acc, lo, hi| {
        let px: Vec<[f32; 3]> = (lo..hi).map(|i| [a[(i / (al * al)) as usize], a[((i / al) % al) as usize], a[(i % al) as usize]]).collect();
        check_rt(acc, lo, &px);
        // the inverse alone, on XYB values of in-gamut colours
        if let Ok(x) = to_xyb(&px[..px.len().min(512)]) {
            crate::img::echo_check(acc, lo, "LinearRgb::from(Xyb)", &x, &|p| from_xyb(p), "c05echo", &json!({}));
        }
        crate::img::refine_violations(acc, lo, &px, 1, &|a, it| check_rt(a, 0, it), &pxs_json);
        if lo == 0 {
            acc.sample(json!({"rgb": px3s(px[px.len()/3]), "note": "LinearRgb -> Xyb -> LinearRgb"}));
        }
    });
    rep.acc.merge(acc);
    // three large images (65,539, 262,147 and 1281x721 pixels) cycling the product
    if !light() {
        for &big in BIG_SIZES.iter() {
            let px: Vec<[f32; 3]> = (0..big as u64).map(|k| { let i = (k * 7919) % total; [a[(i / (al * al)) as usize], a[((i / al) % al) as usize], a[(i % al) as usize]] }).collect();
            let mut acc = Acc::default();
            check_rt(&mut acc, 0, &px);
            crate::img::refine_violations(&mut acc, 0, &px, 1, &|x, it| check_rt(x, 0, it), &pxs_json);
            rep.acc.merge(acc);
        }
    }
    if !light() {
        let px = axis_sweeps(1.0);
        let n = px.len() as u64;
        let acc = par_chunks_varied(n, 1 << 14, |acc, lo, hi| {
            let it = &px[lo as usize..hi as usize];
            check_rt(acc, lo, it);
            crate::img::refine_violations(acc, lo, it, 1, &|a, x| check_rt(a, 0, x), &pxs_json);
        });
        rep.acc.merge(acc);
    }
    rep.bound = format!("each channel swept over 65,537 points with the others at three fixed levels; three large images (65,539, 262,147 and 1281x721 pixels) and the full product of a {al}-value axis alphabet on [0,1] (0, min subnormal, min normal, 2^-k for k=1..40, uniform grid of {} points) = {total} pixels", tier.pick(if light() { 56 } else { 200 }, 1500));
    rep.rule = "LinearRgb::from(Xyb::from(LinearRgb)) on every pixel, |result - input| <= 5e-5 per component, dims preserved; the forward path is the oracle".into();
    rep.guard_bucket("returned within 5e-5");
    rep
}

pub fn replay_c05(case: &Value) -> (bool, String) {
    if case["kind"] == "c05echo" {
        return crate::img::echo_replay(case, &|p| from_xyb(p));
    }
    let mut acc = Acc::default();
    let (items, shape) = crate::img::replay_items(case, vec![px3_from(&case["rgb"])], &pxs_from);
    crate::img::with_shape(shape, || check_rt(&mut acc, 0, &items));
    match acc.viols.values().next() {
        Some(v) => (true, format!("{} :: {}", v.key, v.detail)),
        None => (false, "ok".into()),
    }
}
