//! C13 — conversions are total on arbitrary float data and always emit valid codes
//! (release and checked builds; every stage in a child process).

use crate::explore::*;
use crate::img::*;
use crate::refmodel::*;
use serde_json::{json, Value};
use yuvxyb::{ColorPrimaries as CP, Frame, Hsl, LinearRgb, MatrixCoefficients as MC, Pixel, Rgb, TransferCharacteristic as TC, Xyb, Yuv, YuvConfig};

pub fn k48() -> Vec<f32> {
    let pos = [
        0.0f32,
        f32::from_bits(1),
        1e-40,
        f32::MIN_POSITIVE,
        1e-20,
        0.003_130_8,
        0.01,
        0.018,
        0.040_45,
        0.081,
        1.0 / 12.0,
        0.25,
        0.5,
        0.75,
        1.0,
        1.5,
        2.0,
        255.0,
        65535.5,
        1e10,
        3e38,
        f32::MAX,
        f32::INFINITY,
        f32::NAN,
    ];
    let mut v: Vec<f32> = pos.to_vec();
    v.extend(pos.iter().map(|x| -x));
    v[47] = f32::from_bits(0x7F80_0001); // signalling NaN instead of a second negative quiet NaN
    v
}
fn k16() -> Vec<f32> {
    vec![0.0, -0.0, 1e-40, 0.5, 1.0, 1.5, -0.25, 65535.5, 3e38, -3e38, f32::MAX, f32::INFINITY, f32::NEG_INFINITY, f32::NAN, f32::from_bits(0x7F80_0001), f32::MIN_POSITIVE]
}

fn cube(a: &[f32]) -> (Vec<[f32; 3]>, usize, usize) {
    let n = a.len();
    ((0..n * n * n).map(|i| [a[i / (n * n)], a[(i / n) % n], a[i % n]]).collect(), n * n, n)
}

/// One conversion + configuration.
#[derive(Clone, Copy, Debug, PartialEq)]
pub enum Op {
    RgbToLin(TC, CP),
    LinToRgb(TC, CP),
    Encode(MC, bool, u8, bool), // matrix, full, depth, u16
    LinToXyb,
    XybToLin,
    LinToHsl,
    HslToLin,
    LinToYuv(MC, bool, u8, bool, TC, CP),
    XybToYuv(MC, bool, u8, bool, TC, CP),
    RgbToXyb(TC, CP),
    XybToRgb(TC, CP),
}

fn op_json(op: &Op) -> Value {
    json!(format!("{op:?}"))
}

fn depth_storage3() -> [(u8, bool); 5] {
    [(8, false), (8, true), (10, true), (12, true), (16, true)]
}

pub fn single_stage_ops() -> Vec<Op> {
    let mut v = vec![Op::LinToXyb, Op::XybToLin, Op::LinToHsl, Op::HslToLin];
    for &t in SUPPORTED_TRANSFERS.iter() {
        for &p in SUPPORTED_PRIMARIES.iter() {
            v.push(Op::RgbToLin(t, p));
            v.push(Op::LinToRgb(t, p));
        }
    }
    for &(n, wide) in DEPTH_STORAGE.iter() {
        for &m in STD_MATRICES.iter() {
            for full in [false, true] {
                v.push(Op::Encode(m, full, n, wide));
            }
        }
    }
    v
}

pub fn composite_ops(tier: Tier) -> Vec<Op> {
    let mut v = vec![];
    for &t in SUPPORTED_TRANSFERS.iter() {
        for &p in SUPPORTED_PRIMARIES.iter() {
            v.push(Op::RgbToXyb(t, p));
            v.push(Op::XybToRgb(t, p));
            for &m in STD_MATRICES.iter() {
                for full in [false, true] {
                    for (n, wide) in depth_storage3() {
                        // quick: 12 and 16 bit with every curve (a label may interact with the depth),
                        // but only for one matrix x primaries pair
                        if tier == Tier::Quick && n >= 12 && !(m == MC::BT709 && p == CP::BT709) {
                            continue;
                        }
                        v.push(Op::LinToYuv(m, full, n, wide, t, p));
                        if p == CP::BT709 || tier == Tier::Thorough {
                            v.push(Op::XybToYuv(m, full, n, wide, t, p));
                        }
                    }
                }
            }
        }
    }
    v
}

#[derive(Debug)]
pub enum Out {
    Floats(Vec<[f32; 3]>),
    Codes { max_seen: u16, max_allowed: u16, rewrap_ok: bool },
}

fn yuv_out<T: Pixel>(y: Yuv<T>) -> Out {
    let cfg = y.config();
    let mut max_seen = 0u16;
    for p in y.data() {
        for v in plane_samples(p) {
            max_seen = max_seen.max(v);
        }
    }
    let frame = Frame { planes: [y.data()[0].clone(), y.data()[1].clone(), y.data()[2].clone()] };
    let rewrap_ok = Yuv::new(frame, cfg).is_ok();
    Out::Codes { max_seen, max_allowed: ((1u32 << cfg.bit_depth) - 1) as u16, rewrap_ok }
}

fn ycfg(m: MC, full: bool, n: u8, t: TC, p: CP) -> YuvConfig {
    cfg_full(n, full, (0, 0), m, t, p)
}

/// Outer Err: panic; inner Err: ConversionError (not expected for supported configs).
pub fn run_op(op: &Op, px: Vec<[f32; 3]>, w: usize, h: usize) -> Result<Result<Out, String>, String> {
    guarded(|| -> Result<Out, String> {
        let e = |e: yuvxyb::ConversionError| format!("{e:?}");
        Ok(match *op {
            Op::RgbToLin(t, p) => Out::Floats(LinearRgb::try_from(Rgb::new(px, w, h, t, p).unwrap()).map_err(e)?.into_data()),
            Op::LinToRgb(t, p) => Out::Floats(Rgb::try_from((LinearRgb::new(px, w, h).unwrap(), t, p)).map_err(e)?.into_data()),
            Op::Encode(m, full, n, wide) => {
                let rgb = Rgb::new(px, w, h, TC::BT1886, CP::BT709).unwrap();
                let cfg = ycfg(m, full, n, TC::BT1886, CP::BT709);
                if wide {
                    yuv_out(Yuv::<u16>::try_from((&rgb, cfg)).map_err(e)?)
                } else {
                    yuv_out(Yuv::<u8>::try_from((&rgb, cfg)).map_err(e)?)
                }
            }
            Op::LinToXyb => Out::Floats(Xyb::from(LinearRgb::new(px, w, h).unwrap()).into_data()),
            Op::XybToLin => Out::Floats(LinearRgb::from(Xyb::new(px, w, h).unwrap()).into_data()),
            Op::LinToHsl => Out::Floats(Hsl::from(LinearRgb::new(px, w, h).unwrap()).into_data()),
            Op::HslToLin => Out::Floats(LinearRgb::from(Hsl::new(px, w, h).unwrap()).into_data()),
            Op::LinToYuv(m, full, n, wide, t, p) => {
                let lin = LinearRgb::new(px, w, h).unwrap();
                if wide {
                    yuv_out(Yuv::<u16>::try_from((lin, ycfg(m, full, n, t, p))).map_err(e)?)
                } else {
                    yuv_out(Yuv::<u8>::try_from((lin, ycfg(m, full, n, t, p))).map_err(e)?)
                }
            }
            Op::XybToYuv(m, full, n, wide, t, p) => {
                let x = Xyb::new(px, w, h).unwrap();
                if wide {
                    yuv_out(Yuv::<u16>::try_from((x, ycfg(m, full, n, t, p))).map_err(e)?)
                } else {
                    yuv_out(Yuv::<u8>::try_from((x, ycfg(m, full, n, t, p))).map_err(e)?)
                }
            }
            Op::RgbToXyb(t, p) => Out::Floats(Xyb::try_from(Rgb::new(px, w, h, t, p).unwrap()).map_err(e)?.into_data()),
            Op::XybToRgb(t, p) => Out::Floats(Rgb::try_from((Xyb::new(px, w, h).unwrap(), t, p)).map_err(e)?.into_data()),
        })
    })
}

/// Check one image through one op. `finite_in`: inputs are finite and in [0,1]^3, so outputs must be finite.
fn check_image(acc: &mut Acc, idx: u64, op: &Op, stratum: &str, px: &[[f32; 3]], w: usize, h: usize, finite_in: bool, case: &dyn Fn() -> Value) {
    acc.states += px.len() as u64;
    acc.transitions += px.len() as u64;
    let opname = format!("{op:?}");
    let opclass = opname.split('(').next().unwrap_or("").to_string();
    match run_op(op, px.to_vec(), w, h) {
        Err(p) => {
            acc.violation(idx, format!("panic op={opclass} {}", panic_site(&p)), format!("{opname} on {stratum}: {p}"), case());
            acc.bucket("panicked", 1);
        }
        Ok(Err(e)) => {
            acc.violation(idx, format!("supported-config-rejected op={opclass}"), format!("{opname}: {e}"), case());
        }
        Ok(Ok(Out::Codes { max_seen, max_allowed, rewrap_ok })) => {
            if max_seen > max_allowed || !rewrap_ok {
                acc.violation(idx, format!("invalid-code-produced op={opclass}"), format!("{opname} on {stratum}: max sample {max_seen} > {max_allowed} or Yuv::new rejects the produced planes (rewrap_ok={rewrap_ok})"), case());
                return;
            }
            acc.bucket(&format!("{stratum}: YUV produced, all codes valid, re-wrappable"), 1);
        }
        Ok(Ok(Out::Floats(o))) => {
            if o.len() != px.len() {
                acc.violation(idx, format!("length-changed op={opclass}"), format!("{opname}: {} pixels in, {} out", px.len(), o.len()), case());
                return;
            }
            if finite_in {
                if let Some(i) = o.iter().position(|p| !p.iter().all(|c| c.is_finite())) {
                    acc.violation(idx, format!("non-finite-output-for-unit-cube-input op={opclass}"), format!("{opname}: {} -> {}", px3s(px[i]), px3s(o[i])), case());
                    return;
                }
            }
            acc.bucket(&format!("{stratum}: float image produced"), 1);
        }
    }
}

// ---- stratified patterns ------------------------------------------------------------------------

fn strat_bits(tier: Tier) -> u32 {
    tier.pick(12, 8)
}
fn strat_len(tier: Tier) -> u64 {
    2 * (1u64 << (32 - strat_bits(tier)))
}
fn strat_get(tier: Tier, i: u64) -> f32 {
    let b = strat_bits(tier);
    let half = 1u64 << (32 - b);
    let hi = (i % half) as u32;
    let low = if i >= half { (1u32 << b) - 1 } else { 0 };
    f32::from_bits((hi << b) | low)
}

pub fn strat_ops() -> Vec<Op> {
    let mut v = vec![Op::LinToXyb, Op::XybToLin, Op::LinToHsl, Op::HslToLin];
    for &t in SUPPORTED_TRANSFERS.iter() {
        v.push(Op::RgbToLin(t, CP::BT709));
        v.push(Op::LinToRgb(t, CP::BT709));
    }
    for &p in SUPPORTED_PRIMARIES.iter() {
        if p != CP::BT709 {
            v.push(Op::RgbToLin(TC::Linear, p));
            v.push(Op::LinToRgb(TC::Linear, p));
        }
    }
    for &m in STD_MATRICES.iter() {
        for full in [false, true] {
            for (n, wide) in depth_storage3() {
                v.push(Op::Encode(m, full, n, wide));
            }
        }
    }
    v
}

fn strat_case(acc: &mut Acc, tier: Tier, idx: u64, op: &Op, placement: u8) {
    let total = strat_len(tier);
    let batch = 1u64 << 15;
    let mut lo = 0;
    while lo < total {
        let hi = (lo + batch).min(total);
        let px: Vec<[f32; 3]> = (lo..hi)
            .map(|i| {
                let x = strat_get(tier, i);
                match placement {
                    0 => [x, 0.5, 0.5],
                    1 => [0.5, x, 0.5],
                    2 => [0.5, 0.5, x],
                    _ => [x, x, x],
                }
            })
            .collect();
        let n = px.len();
        let before = acc.viols.len();
        let first = px[0];
        check_image(acc, idx, op, "stratified patterns", &px, n, 1, false, &|| json!({"kind":"c13strat","op":op_json(op),"placement":placement,"first":px3j(first),"lo":lo,"hi":hi}));
        if acc.viols.len() > before {
            return;
        }
        lo = hi;
    }
}

// ---- staging ------------------------------------------------------------------------------------

fn unit_lattice(tier: Tier) -> Vec<[f32; 3]> {
    let n: usize = tier.pick(9, 17);
    let mut a: Vec<f32> = (0..n).map(|i| i as f32 / (n - 1) as f32).collect();
    a.extend([1e-6, 1e-3, f32::MIN_POSITIVE, 0.999_999_94, -0.0, f32::from_bits(1)]);
    let l = a.len();
    (0..l * l * l).map(|i| [a[i / (l * l)], a[(i / l) % l], a[i % l]]).collect()
}

/// Pixel values of the uniform large images: one per class a per-image tally could count
/// (NaN, +inf, -inf, negative, above 1, zero, huge, subnormal) and a mixed pixel.
const UNIFORM: [[f32; 3]; 9] = [
    [f32::NAN; 3],
    [f32::INFINITY; 3],
    [f32::NEG_INFINITY; 3],
    [-1.0; 3],
    [2.0; 3],
    [0.0; 3],
    [1e30; 3],
    [1e-40; 3],
    [f32::NAN, -0.5, f32::INFINITY],
];

/// Every single-stage op plus a covering set of composite ones (every curve, every matrix, every
/// storage class at least once).
pub fn cover_ops() -> Vec<Op> {
    let mut v = single_stage_ops();
    for &t in SUPPORTED_TRANSFERS.iter() {
        v.push(Op::RgbToXyb(t, CP::BT709));
        v.push(Op::XybToRgb(t, CP::BT709));
        v.push(Op::LinToYuv(MC::BT709, false, 8, false, t, CP::BT709));
        v.push(Op::XybToYuv(MC::BT709, true, 10, true, t, CP::BT709));
    }
    for &m in STD_MATRICES.iter() {
        for (n, wide) in depth_storage3() {
            v.push(Op::LinToYuv(m, n == 10, n, wide, TC::BT1886, CP::BT2020));
        }
    }
    v
}

/// One operation of every kind, with specified metadata and (where the operation takes a
/// config) with every field Unspecified: state that accumulates over calls is keyed on the kind
/// of call, not on the pixel values.
pub fn rep_ops() -> Vec<Op> {
    let (t, p) = (TC::SRGB, CP::BT709);
    let (tu, pu, mu) = (TC::Unspecified, CP::Unspecified, MC::Unspecified);
    vec![
        Op::LinToXyb, Op::XybToLin, Op::LinToHsl, Op::HslToLin,
        Op::RgbToLin(t, p), Op::LinToRgb(t, p), Op::RgbToLin(tu, pu), Op::LinToRgb(tu, pu),
        Op::RgbToXyb(t, p), Op::XybToRgb(t, p), Op::RgbToXyb(tu, pu), Op::XybToRgb(tu, pu),
        Op::Encode(MC::BT709, false, 8, false), Op::Encode(MC::BT709, true, 10, true), Op::Encode(mu, false, 8, false),
        Op::LinToYuv(MC::BT709, false, 8, false, t, p), Op::LinToYuv(mu, false, 8, false, tu, pu), Op::LinToYuv(mu, true, 10, true, t, p),
        Op::LinToYuv(MC::BT709, false, 8, false, tu, p), Op::LinToYuv(MC::BT709, false, 8, false, t, pu),
        Op::XybToYuv(MC::BT709, false, 8, false, t, p), Op::XybToYuv(mu, false, 8, false, tu, pu),
    ]
}

const REPS: usize = 65_600;

fn out_digest(o: &Result<Result<Out, String>, String>) -> String {
    match o {
        Ok(Ok(Out::Floats(v))) => format!("floats {:?}", v.iter().map(|p| p.map(f32::to_bits)).collect::<Vec<_>>()),
        Ok(Ok(Out::Codes { max_seen, max_allowed, rewrap_ok })) => format!("codes {max_seen} {max_allowed} {rewrap_ok}"),
        Ok(Err(e)) => format!("err {e}"),
        Err(p) => format!("panic {}", panic_site(p)),
    }
}

/// REPS identical calls on one fresh thread: none may panic (a wrapping tally only does so in a
/// checked build) and every result must equal the first one.
fn rep_case(acc: &mut Acc, idx: u64, op: &Op) {
    let case = || json!({"kind":"c13rep","op":op_json(op)});
    let op2 = *op;
    let r: Option<(usize, String, String)> = std::thread::spawn(move || {
        let px = vec![[0.25f32, 0.5, 0.75], [0.1, 0.9, 0.4]];
        let first = out_digest(&run_op(&op2, px.clone(), 2, 1));
        for k in 1..REPS {
            let d = out_digest(&run_op(&op2, px.clone(), 2, 1));
            if d != first {
                return Some((k, first, d));
            }
        }
        None
    })
    .join()
    .expect("repetition thread");
    acc.states += 1;
    acc.transitions += REPS as u64;
    let opname = format!("{op:?}");
    let opclass = opname.split('(').next().unwrap_or("").to_string();
    match r {
        None => acc.bucket("repeated calls: every one of 65,600 results equals the first", 1),
        Some((k, first, d)) => {
            let key = if d.starts_with("panic") { format!("panic op={opclass} after repeated calls {}", &d[6..]) } else { format!("result-changes-after-repeated-calls op={opclass}") };
            acc.violation(idx, key, format!("{opname}: call number {} on one thread gives `{}`, the first call gave `{}`", k + 1, d.chars().take(200).collect::<String>(), first.chars().take(120).collect::<String>()), case());
        }
    }
}

const SHAPES: [(usize, usize); 6] = [(0, 0), (0, 3), (2, 0), (1, 1), (1, 7), (7, 1)];

fn shape_px(k: &[f32], i: u64, w: usize, h: usize) -> Vec<[f32; 3]> {
    (0..w * h).map(|j| [k[(7 * j + i as usize) % k.len()], k[(11 * j + 3) % k.len()], k[(13 * j + 5 * i as usize) % k.len()]]).collect()
}

pub fn staged(tier: Tier) -> Staged {
    Staged {
        property: "C13",
        stages: vec![
            ("special cubes through single-stage conversions".into(), single_stage_ops().len() as u64),
            ("special cubes through composite conversions".into(), composite_ops(tier).len() as u64),
            ("stratified bit patterns per component".into(), strat_ops().len() as u64 * 4),
            ("unit-cube lattice: finite in, finite out".into(), (single_stage_ops().len() + composite_ops(tier).len()) as u64),
            ("degenerate shapes: zero-pixel, single-pixel, one-column images".into(), (single_stage_ops().len() + composite_ops(tier).len()) as u64),
            ("uniform special images of 65,537 pixels".into(), cover_ops().len() as u64 * UNIFORM.len() as u64),
            ("65,600 repetitions of one call on one thread".into(), rep_ops().len() as u64),
        ],
        run: run_stage,
        case_of,
    }
}

fn run_stage(tier: Tier, stage: usize, lo: u64, hi: u64) -> Acc {
    let n = hi - lo;
    match stage {
        0 => {
            let ops = single_stage_ops();
            let (px, w, h) = cube(&k48());
            par_chunks(n, 1, |acc, a, _| {
                let i = lo + a;
                check_image(acc, i, &ops[i as usize], "48^3 special cube", &px, w, h, false, &|| json!({"kind":"c13cube","k":48,"op":op_json(&ops[i as usize])}));
                if i == 0 {
                    acc.sample(json!({"stage":"special cubes","alphabet": k48().iter().map(|x| format!("{x:e}")).collect::<Vec<_>>() }));
                }
            })
        }
        1 => {
            let ops = composite_ops(tier);
            let (px, w, h) = cube(&if tier == Tier::Quick { k16() } else { k48() });
            let k = if tier == Tier::Quick { 16 } else { 48 };
            par_chunks(n, 1, |acc, a, _| {
                let i = lo + a;
                check_image(acc, i, &ops[i as usize], "special cube (composite)", &px, w, h, false, &|| json!({"kind":"c13cube","k":k,"op":op_json(&ops[i as usize])}));
            })
        }
        2 => {
            let ops = strat_ops();
            par_chunks(n, 1, |acc, a, _| {
                let i = lo + a;
                strat_case(acc, tier, i, &ops[(i / 4) as usize], (i % 4) as u8);
            })
        }
        4 => {
            let mut ops = single_stage_ops();
            ops.extend(composite_ops(tier));
            let k = k48();
            par_chunks(n, 1, |acc, a, _| {
                let i = lo + a;
                let op = &ops[i as usize];
                let to_yuv = matches!(op, Op::Encode(..) | Op::LinToYuv(..) | Op::XybToYuv(..));
                for (w, h) in SHAPES {
                    // v_frame cannot iterate a zero-width plane that has rows (its PlaneIter underflows),
                    // so `Yuv::new` itself panics on a 0xN u16 frame: outside every property's domain
                    if to_yuv && w == 0 && h > 0 {
                        continue;
                    }
                    let px = shape_px(&k, i, w, h);
                    check_image(acc, i, op, "degenerate shapes", &px, w, h, false, &|| json!({"kind":"c13shape","op":op_json(op),"w":w,"h":h,"i":i,"tier":tier.name()}));
                }
            })
        }
        5 => {
            let ops = cover_ops();
            par_chunks(n, 1, |acc, a, _| {
                let i = lo + a;
                let (op, u) = (&ops[i as usize / UNIFORM.len()], UNIFORM[i as usize % UNIFORM.len()]);
                let px = vec![u; 65_537];
                check_image(acc, i, op, "uniform special image", &px, 65_537, 1, false, &|| json!({"kind":"c13uniform","op":op_json(op),"u":i as usize % UNIFORM.len()}));
            })
        }
        6 => {
            let ops = rep_ops();
            par_chunks(n, 1, |acc, a, _| {
                let i = lo + a;
                rep_case(acc, i, &ops[i as usize]);
            })
        }
        _ => {
            let mut ops = single_stage_ops();
            ops.extend(composite_ops(tier));
            let px = unit_lattice(tier);
            let len = px.len();
            par_chunks(n, 1, |acc, a, _| {
                let i = lo + a;
                let op = &ops[i as usize];
                // HSL input is not an RGB cube: H in degrees
                let img: Vec<[f32; 3]> = if *op == Op::HslToLin { px.iter().map(|p| [p[0] * 359.99, p[1], p[2]]).collect() } else { px.clone() };
                // XYB inputs of in-gamut colours: produce them through the forward transform
                let img = match op {
                    Op::XybToLin | Op::XybToYuv(..) | Op::XybToRgb(..) => Xyb::from(LinearRgb::new(img, len, 1).unwrap()).into_data(),
                    _ => img,
                };
                check_image(acc, i, op, "unit-cube lattice", &img, len, 1, true, &|| json!({"kind":"c13unit","op":op_json(op),"tier":tier.name()}));
            })
        }
    }
}

fn case_of(tier: Tier, stage: usize, i: u64) -> Value {
    match stage {
        0 => json!({"kind":"c13cube","k":48,"op":op_json(&single_stage_ops()[i as usize])}),
        1 => json!({"kind":"c13cube","k":if tier == Tier::Quick {16} else {48},"op":op_json(&composite_ops(tier)[i as usize])}),
        2 => json!({"kind":"c13stratcase","op":op_json(&strat_ops()[(i / 4) as usize]),"placement":i % 4,"tier":tier.name()}),
        4 => {
            let mut ops = single_stage_ops();
            ops.extend(composite_ops(tier));
            json!({"kind":"c13shapes","op":op_json(&ops[i as usize]),"i":i,"tier":tier.name()})
        }
        5 => json!({"kind":"c13uniform","op":op_json(&cover_ops()[i as usize / UNIFORM.len()]),"u":i as usize % UNIFORM.len()}),
        6 => json!({"kind":"c13rep","op":op_json(&rep_ops()[i as usize])}),
        _ => {
            let mut ops = single_stage_ops();
            ops.extend(composite_ops(tier));
            json!({"kind":"c13unit","op":op_json(&ops[i as usize]),"tier":tier.name()})
        }
    }
}

pub fn run(tier: Tier) -> Report {
    let mut rep = Report::new("C13");
    let st = staged(tier);
    run_staged(tier, &st, &mut rep);
    rep.bound = format!(
        "stages (each in a child process): {}; special alphabet = 48 values (+-0, subnormals, thresholds, 1.5, 255, 65535.5, 1e10, 3e38, max, inf, quiet/signalling NaN), full cubes through all 14x11 curve/primaries pairs in both directions, all 140 encode configs, XYB and HSL both ways, and the composite LinearRgb/Xyb->Yuv, Rgb<->Xyb paths over 14 curves x 11 primaries x 7 matrices x 2 ranges x depths; stratified = every f32 bit pattern whose low {} bits are all-0 or all-1 ({} patterns) on each component in turn (others 0.5) and on all three; unit cube lattice {}^3 for finiteness; every conversion on 0x0, 0x3, 2x0, 1x1, 1x7 and 7x1 images of special values (0x3 only where no YUV frame is built); 65,537-pixel images uniformly NaN / +inf / -inf / -1 / 2 / 0 / 1e30 / subnormal / mixed through every single-stage and a covering set of composite conversions; 65,600 identical calls of every kind of conversion (specified and Unspecified metadata) on one thread, no panic and every result equal to the first",
        st.stages.iter().map(|(n, t)| format!("{n}: {t} cases")).collect::<Vec<_>>().join("; "),
        strat_bits(tier), strat_len(tier), tier.pick(15, 23)
    );
    rep.rule = "every conversion runs inside catch_unwind in a child process: no panic, no abort; every produced YUV image has max sample <= 2^n-1 and is accepted again by Yuv::new; finite inputs in [0,1]^3 give finite outputs".into();
    rep.assumptions = vec!["image dimensions compatible with the subsampling (4:4:4 here); other sizes are covered by C07/C11/C12".into()];
    rep.guard_bucket("48^3 special cube: YUV produced, all codes valid, re-wrappable");
    rep.guard_bucket("48^3 special cube: float image produced");
    rep.guard_bucket("stratified patterns: YUV produced, all codes valid, re-wrappable");
    rep.guard_bucket("unit-cube lattice: float image produced");
    rep.guard_bucket("unit-cube lattice: YUV produced, all codes valid, re-wrappable");
    rep.guard_bucket("degenerate shapes: float image produced");
    rep.guard_bucket("uniform special image: float image produced");
    rep.guard_bucket("uniform special image: YUV produced, all codes valid, re-wrappable");
    rep.guard_bucket("repeated calls: every one of 65,600 results equals the first");
    rep.guard_bucket("degenerate shapes: YUV produced, all codes valid, re-wrappable");
    rep
}

fn op_from(s: &str, tier: Tier) -> Option<Op> {
    let mut ops = single_stage_ops();
    ops.extend(composite_ops(Tier::Thorough));
    ops.extend(composite_ops(tier));
    ops.extend(strat_ops());
    ops.extend(cover_ops());
    ops.extend(rep_ops());
    ops.into_iter().find(|o| format!("{o:?}") == s)
}

pub fn replay(case: &Value) -> (bool, String) {
    let mut acc = Acc::default();
    let tier = if case["tier"] == "thorough" { Tier::Thorough } else { Tier::Quick };
    let Some(op) = op_from(case["op"].as_str().unwrap_or(""), tier) else { return (false, "unknown op".into()) };
    match case["kind"].as_str().unwrap() {
        "c13cube" => {
            let (px, w, h) = cube(&if case["k"] == 16 { k16() } else { k48() });
            check_image(&mut acc, 0, &op, "special cube", &px, w, h, false, &|| json!(null));
        }
        "c13strat" => {
            // rebuild the batch
            let (lo, hi) = (case["lo"].as_u64().unwrap(), case["hi"].as_u64().unwrap());
            let t = if hi - lo == 1 << 15 && strat_len(Tier::Quick) >= hi && px3_from(&case["first"]) == place(strat_get(Tier::Quick, lo), case["placement"].as_u64().unwrap() as u8) { Tier::Quick } else { Tier::Thorough };
            let px: Vec<[f32; 3]> = (lo..hi).map(|i| place(strat_get(t, i), case["placement"].as_u64().unwrap() as u8)).collect();
            let n = px.len();
            check_image(&mut acc, 0, &op, "stratified patterns", &px, n, 1, false, &|| json!(null));
        }
        "c13stratcase" => strat_case(&mut acc, tier, 0, &op, case["placement"].as_u64().unwrap() as u8),
        "c13uniform" => {
            let px = vec![UNIFORM[case["u"].as_u64().unwrap() as usize]; 65_537];
            check_image(&mut acc, 0, &op, "uniform special image", &px, 65_537, 1, false, &|| json!(null));
        }
        "c13rep" => rep_case(&mut acc, 0, &op),
        "c13shape" | "c13shapes" => {
            let i = case["i"].as_u64().unwrap();
            let to_yuv = matches!(op, Op::Encode(..) | Op::LinToYuv(..) | Op::XybToYuv(..));
            for (w, h) in SHAPES {
                if case["kind"] == "c13shape" && (case["w"].as_u64() != Some(w as u64) || case["h"].as_u64() != Some(h as u64)) {
                    continue;
                }
                if to_yuv && w == 0 && h > 0 {
                    continue;
                }
                check_image(&mut acc, 0, &op, "degenerate shapes", &shape_px(&k48(), i, w, h), w, h, false, &|| json!(null));
            }
        }
        _ => {
            let px = unit_lattice(tier);
            let len = px.len();
            let img: Vec<[f32; 3]> = if op == Op::HslToLin { px.iter().map(|p| [p[0] * 359.99, p[1], p[2]]).collect() } else { px.clone() };
            let img = match op {
                Op::XybToLin | Op::XybToYuv(..) | Op::XybToRgb(..) => Xyb::from(LinearRgb::new(img, len, 1).unwrap()).into_data(),
                _ => img,
            };
            check_image(&mut acc, 0, &op, "unit-cube lattice", &img, len, 1, true, &|| json!(null));
        }
    }
    match acc.viols.values().next() {
        Some(v) => (true, format!("{} :: {}", v.key, v.detail)),
        None => (false, "ok".into()),
    }
}

fn place(x: f32, placement: u8) -> [f32; 3] {
    match placement {
        0 => [x, 0.5, 0.5],
        1 => [0.5, x, 0.5],
        2 => [0.5, 0.5, x],
        _ => [x, x, x],
    }
}
