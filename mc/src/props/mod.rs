pub mod c01;
