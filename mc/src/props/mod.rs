pub mod c01;
pub mod c08;
pub mod c02;
pub mod c03;
pub mod c04;
pub mod c06;
pub mod c18;
pub mod c19;
