//! C08 — YUV->RGB->YUV is a lossless code round trip.

use super::c01::{configs, domains_for, Cfg};
use crate::explore::*;
use crate::img::*;
use crate::refmodel::*;
use serde_json::{json, Value};
use yuvxyb::{MatrixCoefficients as MC, Pixel, Rgb, Yuv};

fn roundtrip<T: Pixel>(c: &Cfg, y: &[u16], u: &[u16], v: &[u16]) -> Result<[Vec<u16>; 3], String> {
    let yuv = yuv444_row::<T>(y, u, v, cfg444(c.n, c.full, c.m));
    let cfg = yuv.config();
    let back = guarded(|| -> Result<Yuv<T>, yuvxyb::ConversionError> {
        let rgb = Rgb::try_from(&yuv)?;
        Yuv::<T>::try_from((rgb, cfg))
    })?
    .map_err(|e| format!("conversion error {e:?}"))?;
    if (back.width(), back.height()) != shape_of(y.len()) || back.config() != cfg {
        return Err(format!("dims/config changed: {}x{} {:?}", back.width(), back.height(), back.config()));
    }
    Ok([plane_samples(&back.data()[0]), plane_samples(&back.data()[1]), plane_samples(&back.data()[2])])
}

fn roundtrip_dyn(c: &Cfg, y: &[u16], u: &[u16], v: &[u16]) -> Result<[Vec<u16>; 3], String> {
    if c.wide {
        roundtrip::<u16>(c, y, u, v)
    } else {
        roundtrip::<u8>(c, y, u, v)
    }
}

fn expected(c: &Cfg, plane: usize, code: u16) -> u16 {
    if c.full {
        code
    } else {
        let k = 1u32 << (c.n - 8);
        let hi = if plane == 0 { 235 * k } else { 240 * k };
        (code as u32).clamp(16 * k, hi) as u16
    }
}

fn check_batch(acc: &mut Acc, c: &Cfg, base: u64, ys: &[u16], us: &[u16], vs: &[u16]) {
    let len = ys.len();
    acc.states += len as u64;
    acc.transitions += 2 * len as u64;
    let case0 = || json!({"kind":"c08","cfg":c.json(),"yuv":[ys[0],us[0],vs[0]]});
    let out = match roundtrip_dyn(c, ys, us, vs) {
        Ok(o) => o,
        Err(e) => {
            acc.violation(base, format!("roundtrip-failed {} {}", c.key(), panic_site(&e)), e, case0());
            return;
        }
    };
    let inp = [ys, us, vs];
    let (mut clamped, mut zero_to_one, mut exact) = (0u64, 0u64, 0u64);
    for i in 0..len {
        let mut was_clamped = false;
        for p in 0..3 {
            let want = expected(c, p, inp[p][i]);
            let got = out[p][i];
            if want != inp[p][i] {
                was_clamped = true;
            }
            if got == want {
                continue;
            }
            if c.full && p > 0 && want == 0 && got == 1 {
                zero_to_one += 1;
                continue;
            }
            acc.violation(
                base + i as u64,
                format!("lossy-roundtrip {} plane={}", c.key(), p),
                format!(
                    "Y,U,V=({},{},{}) came back as ({},{},{}); plane {} expected {}",
                    ys[i], us[i], vs[i], out[0][i], out[1][i], out[2][i], p, want
                ),
                json!({"kind":"c08","cfg":c.json(),"yuv":[ys[i],us[i],vs[i]]}),
            );
            acc.bucket("lossy", 1);
            return;
        }
        if was_clamped {
            clamped += 1;
        } else {
            exact += 1;
        }
    }
    acc.bucket("returned exactly (in legal range)", exact);
    acc.bucket("returned clamped to legal range", clamped);
    acc.bucket("tolerated full-range chroma 0->1", zero_to_one);
}

fn run_items(acc: &mut Acc, c: &Cfg, it: &[[u16; 3]]) {
    let (ys, us, vs): (Vec<u16>, Vec<u16>, Vec<u16>) = (it.iter().map(|t| t[0]).collect(), it.iter().map(|t| t[1]).collect(), it.iter().map(|t| t[2]).collect());
    check_batch(acc, c, 0, &ys, &us, &vs);
}
fn items_from(v: &Value) -> Vec<[u16; 3]> {
    v.as_array().unwrap().iter().map(|t| [t[0].as_u64().unwrap() as u16, t[1].as_u64().unwrap() as u16, t[2].as_u64().unwrap() as u16]).collect()
}

pub fn run(tier: Tier) -> Report {
    let mut rep = Report::new("C08");
    let cfgs = configs();
    let mut base = 0u64;
    let mut domain_desc = std::collections::BTreeMap::new();
    for c in &cfgs {
        for d in domains_for(c, tier) {
            domain_desc.insert(format!("depth {}: {}", c.n, d.describe()), d.len());
            let total = d.len();
            let acc = par_chunks_varied(total, 1 << 16, |acc, lo, hi| {
                let len = (hi - lo) as usize;
                let (mut ys, mut us, mut vs) = (Vec::with_capacity(len), Vec::with_capacity(len), Vec::with_capacity(len));
                for i in lo..hi {
                    let t = d.get(i);
                    ys.push(t[0]);
                    us.push(t[1]);
                    vs.push(t[2]);
                }
                check_batch(acc, c, base + lo, &ys, &us, &vs);
                let items: Vec<[u16; 3]> = (0..ys.len()).map(|i| [ys[i], us[i], vs[i]]).collect();
                refine_violations(acc, base + lo, &items, 1, &|a, it| run_items(a, c, it), &|it| json!(it));
                if !matches!(d, Triples::Full(_)) {
                    let rev: Vec<[u16; 3]> = items.iter().rev().copied().collect();
                    run_items(acc, c, &rev);
                    refine_violations(acc, 0, &rev, 1, &|a, it| run_items(a, c, it), &|it| json!(it));
                }
                if lo == 0 && c.m == MC::BT709 && c.n == 10 {
                    acc.sample(json!({"cfg": c.json(), "triple": [ys[len/2],us[len/2],vs[len/2]], "note": "decoded by Rgb::try_from(&yuv), re-encoded by Yuv::try_from((rgb, cfg)), compared code by code"}));
                }
            });
            rep.acc.merge(acc);
            base += total;
        }
        if !light() {
            let prod = Triples::Product(lattice_codes(c.n as u32, 17));
            for &big in BIG_SIZES.iter() {
                let items: Vec<[u16; 3]> = (0..big as u64).map(|i| prod.get((i * 7919) % prod.len())).collect();
                let mut acc = Acc::default();
                run_items(&mut acc, c, &items);
                refine_violations(&mut acc, 0, &items, 1, &|a, it| run_items(a, c, it), &|it| json!(it));
                acc.bucket("large images (65,539, 262,147 and 1281x721 pixels) round-tripped", 1);
                rep.acc.merge(acc);
            }
        }
        if c.n >= 9 || light() {
            let pairs = super::c01::carry_pairs(c.n as u32);
            let acc = par_chunks(pairs.len() as u64 / 2, 1 << 13, |acc, lo, hi| {
                let it = &pairs[(2 * lo) as usize..(2 * hi) as usize];
                let before = acc.viols.len();
                run_items(acc, c, it);
                if acc.viols.len() > before {
                    let keys: Vec<String> = acc.viols.iter().filter(|(_, v)| v.case.get("shape").is_none()).map(|(k, _)| k.clone()).collect();
                    for k in keys {
                        let i = (acc.viols[&k].index as usize) & !1;
                        let pair = [it[i.min(it.len() - 2)], it[(i + 1).min(it.len() - 1)]];
                        let v = acc.viols.get_mut(&k).unwrap();
                        v.case["shape"] = json!([2, 1]);
                        v.case["batch"] = json!(pair);
                    }
                }
                acc.bucket("carry-collision neighbour pairs round-tripped", (hi - lo) as u64);
            });
            rep.acc.merge(acc);
        }
    }
    rep.bound = format!(
        "140 configs (7 matrices x 2 ranges x 10 depth/storage pairs); per config: {:?}; completely exhaustive up to depth {}",
        domain_desc, tier.pick(8, 10)
    );
    rep.rule = "every (config, code triple) of the stated finite domain goes through the real decode and the real encode; the result must equal the input clamped to the legal range (only full-range chroma 0->1 tolerated); a state is one (config, triple), two transitions each".into();
    rep.assumptions = vec!["pointwise behaviour (C11) for depths above the completely enumerated ones".into()];
    rep.guard_bucket("returned exactly (in legal range)");
    rep.guard_bucket("returned clamped to legal range");
    rep.guard("all 140 configs visited", cfgs.len() == 140);
    let _ = STD_MATRICES;
    rep
}

pub fn replay(case: &Value) -> (bool, String) {
    let c = Cfg::from_json(&case["cfg"]);
    let t: Vec<u16> = case["yuv"].as_array().unwrap().iter().map(|v| v.as_u64().unwrap() as u16).collect();
    let mut acc = Acc::default();
    let (items, shape) = replay_items(case, vec![[t[0], t[1], t[2]]], &items_from);
    with_shape(shape, || run_items(&mut acc, &c, &items));
    match acc.viols.values().next() {
        Some(v) => (true, format!("{} :: {}", v.key, v.detail)),
        None => (false, "ok".to_string()),
    }
}
