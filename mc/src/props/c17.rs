//! C17 — HSL conversion follows the hexcone model, stays in range and round-trips.

use crate::explore::*;
use crate::refmodel::*;
use serde_json::{json, Value};
use yuvxyb::{Hsl, LinearRgb};

pub fn to_hsl(px: &[[f32; 3]]) -> Result<Vec<[f32; 3]>, String> {
    let len = px.len();
    let (w, h) = crate::img::shape_of(len);
    let lin = LinearRgb::new(px.to_vec(), w, h).map_err(|e| format!("{e:?}"))?;
    let hsl = guarded(|| Hsl::from(lin))?;
    if hsl.width() != w || hsl.height() != h || hsl.data().len() != len {
        return Err("dims changed".into());
    }
    Ok(hsl.data().to_vec())
}
pub fn from_hsl(px: &[[f32; 3]]) -> Result<Vec<[f32; 3]>, String> {
    let len = px.len();
    let (w, h) = crate::img::shape_of(len);
    let hsl = Hsl::new(px.to_vec(), w, h).map_err(|e| format!("{e:?}"))?;
    let lin = guarded(|| LinearRgb::from(hsl))?;
    if lin.width() != w || lin.height() != h || lin.data().len() != len {
        return Err("dims changed".into());
    }
    Ok(lin.data().to_vec())
}

fn sextant(p: [f32; 3]) -> &'static str {
    let [r, g, b] = p;
    if r == g && g == b {
        "grey"
    } else if r >= g && g >= b {
        "sextant 0 (R>=G>=B)"
    } else if g >= r && r >= b {
        "sextant 1 (G>=R>=B)"
    } else if g >= b && b >= r {
        "sextant 2 (G>=B>=R)"
    } else if b >= g && g >= r {
        "sextant 3 (B>=G>=R)"
    } else if b >= r && r >= g {
        "sextant 4 (B>=R>=G)"
    } else {
        "sextant 5 (R>=B>=G)"
    }
}

fn check_rgb(acc: &mut Acc, base: u64, px: &[[f32; 3]]) {
    let mk = |p: [f32; 3]| json!({"kind":"c17","rgb":px3j(p)});
    acc.states += px.len() as u64;
    acc.transitions += 2 * px.len() as u64;
    let hsl = match to_hsl(px) {
        Ok(o) => o,
        Err(e) => {
            acc.violation(base, format!("hsl-failed {}", panic_site(&e)), e, mk(px[0]));
            return;
        }
    };
    let back = match from_hsl(&hsl) {
        Ok(o) => o,
        Err(e) => {
            acc.violation(base, format!("hsl-inverse-failed {}", panic_site(&e)), e, mk(px[0]));
            return;
        }
    };
    let (mut wl, mut ws, mut wh, mut wrt) = (0.0f64, 0.0f64, 0.0f64, 0.0f64);
    let mut counts = std::collections::BTreeMap::new();
    for i in 0..px.len() {
        let p = px[i];
        let [h, s, l] = hsl[i];
        let sx = sextant(p);
        *counts.entry(sx).or_insert(0u64) += 1;
        let fail = |acc: &mut Acc, key: String, d: String| {
            acc.violation(base + i as u64, key, d, mk(p));
            acc.bucket("violating pixel", 1);
        };
        if !(h >= 0.0 && h < 360.0) {
            fail(acc, format!("hue-out-of-range {}", if h < 0.0 { "negative" } else { "other" }), format!("rgb={} -> H={h:e} not in [0,360) ({sx})", px3s(p)));
            return;
        }
        if !(s >= 0.0 && s <= 1.0) {
            fail(acc, "saturation-out-of-range".into(), format!("rgb={} -> S={s:e} (bits {:#x}) not in [0,1]", px3s(p), s.to_bits()));
            return;
        }
        if !(l >= 0.0 && l <= 1.0) {
            fail(acc, "lightness-out-of-range".into(), format!("rgb={} -> L={l:e} not in [0,1]", px3s(p)));
            return;
        }
        let (eh, es, el, c) = hexcone_hsl([p[0] as f64, p[1] as f64, p[2] as f64]);
        let dl = (l as f64 - el).abs();
        wl = wl.max(dl);
        if dl > 1e-6 {
            fail(acc, "lightness-mismatch".into(), format!("rgb={} -> L={l:e}, hexcone {el:.9}", px3s(p)));
            return;
        }
        if (0.01..=0.99).contains(&el) {
            let ds = (s as f64 - es).abs();
            ws = ws.max(ds);
            if ds > 1e-4 {
                fail(acc, "saturation-mismatch".into(), format!("rgb={} -> S={s:e}, hexcone {es:.9}", px3s(p)));
                return;
            }
        }
        if c >= 0.01 {
            let mut dh = (h as f64 - eh).abs();
            dh = dh.min(360.0 - dh);
            wh = wh.max(dh);
            if dh > 0.01 {
                fail(acc, format!("hue-mismatch {sx}"), format!("rgb={} -> H={h:e}, hexcone {eh:.6}", px3s(p)));
                return;
            }
        }
        let mut e = 0.0f64;
        for k in 0..3 {
            let d = (back[i][k] as f64 - p[k] as f64).abs();
            e = if d.is_nan() { f64::INFINITY } else { e.max(d) };
        }
        wrt = wrt.max(e);
        if e > 1e-5 {
            fail(acc, format!("hsl-roundtrip {sx}"), format!("rgb={} -> hsl={} -> {}: error {e:.3e} > 1e-5", px3s(p), px3s(hsl[i]), px3s(back[i])));
            return;
        }
    }
    for (k, v) in counts {
        acc.bucket(k, v);
    }
    acc.worst("L error (budget 1e-6)", wl, || json!(null));
    acc.worst("S error (budget 1e-4)", ws, || json!(null));
    acc.worst("H error degrees (budget 0.01)", wh, || json!(null));
    acc.worst("round trip error (budget 1e-5)", wrt, || json!(null));
}

fn check_hsl(acc: &mut Acc, base: u64, px: &[[f32; 3]]) {
    let mk = |p: [f32; 3]| json!({"kind":"c17hsl","hsl":px3j(p)});
    acc.states += px.len() as u64;
    acc.transitions += px.len() as u64;
    let rgb = match from_hsl(px) {
        Ok(o) => o,
        Err(e) => {
            acc.violation(base, format!("hsl-inverse-failed {}", panic_site(&e)), e, mk(px[0]));
            return;
        }
    };
    let mut wref = 0.0f64;
    for i in 0..px.len() {
        let [h, s, l] = px[i];
        let o = rgb[i];
        if l == 0.0 && !o.iter().all(|c| c.abs() <= 1e-6) {
            acc.violation(base + i as u64, "l0-not-black".into(), format!("hsl={} -> {}", px3s(px[i]), px3s(o)), mk(px[i]));
            return;
        }
        if l == 1.0 && !o.iter().all(|c| (c - 1.0).abs() <= 1e-6) {
            acc.violation(base + i as u64, "l1-not-white".into(), format!("hsl={} -> {}", px3s(px[i]), px3s(o)), mk(px[i]));
            return;
        }
        if !o.iter().all(|c| c.is_finite()) {
            acc.violation(base + i as u64, "hsl-inverse-not-finite".into(), format!("hsl={} -> {}", px3s(px[i]), px3s(o)), mk(px[i]));
            return;
        }
        let e = hexcone_rgb(h as f64, s as f64, l as f64);
        for k in 0..3 {
            wref = wref.max((o[k] as f64 - e[k]).abs());
        }
        if l == 0.0 {
            acc.bucket("L=0 -> black", 1);
        } else if l == 1.0 {
            acc.bucket("L=1 -> white", 1);
        } else {
            acc.bucket("HSL triple with 0<L<1: finite", 1);
        }
    }
    acc.worst("HSL->RGB distance from the textbook inverse (reported only)", wref, || json!(null));
}

fn pxs_json(it: &[[f32; 3]]) -> Value {
    json!(it.iter().map(|p| px3j(*p)).collect::<Vec<_>>())
}
fn pxs_from(v: &Value) -> Vec<[f32; 3]> {
    v.as_array().unwrap().iter().map(px3_from).collect()
}

pub fn run(tier: Tier) -> Report {
    let mut rep = Report::new("C17");
    let n: u64 = tier.pick(400, 2048);
    let total = n * n * n;
    let d = (n - 1) as f32;
    let acc = par_chunks_varied(total, 1 << 15, |acc, lo, hi| {
        let px: Vec<[f32; 3]> = (lo..hi).map(|i| [(i / (n * n)) as f32 / d, ((i / n) % n) as f32 / d, (i % n) as f32 / d]).collect();
        check_rgb(acc, lo, &px);
        crate::img::echo_check(acc, lo, "Hsl::from(LinearRgb)", &px, &|p| to_hsl(p), "c17echo", &json!({"dir":"to_hsl"}));
        crate::img::refine_violations(acc, lo, &px, 1, &|a, it| check_rgb(a, 0, it), &pxs_json);
        if lo == 0 {
            let p = px[px.len() / 2];
            let (h, s, l, _) = hexcone_hsl([p[0] as f64, p[1] as f64, p[2] as f64]);
            acc.sample(json!({"rgb": px3s(p), "hexcone_hsl": [h, s, l]}));
        }
    });
    rep.acc.merge(acc);
    for &big in BIG_SIZES.iter() {
        let px: Vec<[f32; 3]> = (0..big as u64).map(|k| { let i = (k * 7919) % total; [(i / (n * n)) as f32 / d, ((i / n) % n) as f32 / d, (i % n) as f32 / d] }).collect();
        let mut acc = Acc::default();
        check_rgb(&mut acc, 0, &px);
        crate::img::refine_violations(&mut acc, 0, &px, 1, &|a, it| check_rgb(a, 0, it), &pxs_json);
        rep.acc.merge(acc);
    }
    // near-grey shells and sextant boundaries at f32 resolution
    let mut shell: Vec<[f32; 3]> = vec![];
    for bi in 0..=64 {
        let b = bi as f32 / 64.0;
        for dd in [1e-7f32, 1e-6, 1e-4, 1e-2, 0.1] {
            for t in [0.0f32, 0.25, 0.5, 0.75, 1.0] {
                let (a, c) = (b + dd, b + dd * t);
                if a > 1.0 {
                    continue;
                }
                for perm in [[a, c, b], [c, a, b], [b, a, c], [b, c, a], [c, b, a], [a, b, c]] {
                    shell.push(perm);
                }
            }
        }
    }
    // large chroma, two low channels apart by 1 ulp .. 1e-6 (hue next to a sextant boundary, incl. the 0/360 wrap)
    for hi in [1.0f32, 0.75, 0.5, 0.1] {
        for lo in [0.0f32, 0.05, 0.25, 0.5] {
            if lo >= hi {
                continue;
            }
            let up = |x: f32, k: u32| f32::from_bits(x.to_bits() + k);
            for lo2 in [up(lo, 1), up(lo, 2), up(lo, 16), lo + 1e-7, lo + 1e-6, lo + 1e-5] {
                for perm in [[hi, lo, lo2], [hi, lo2, lo], [lo, hi, lo2], [lo2, hi, lo], [lo, lo2, hi], [lo2, lo, hi]] {
                    shell.push(perm);
                }
            }
            let dn = |x: f32, k: u32| f32::from_bits(x.to_bits() - k);
            for hi2 in [dn(hi, 1), dn(hi, 2), hi - 1e-6] {
                for perm in [[hi, hi2, lo], [hi2, hi, lo], [lo, hi, hi2], [lo, hi2, hi], [hi, lo, hi2], [hi2, lo, hi]] {
                    shell.push(perm);
                }
            }
        }
    }
    // dark colours (the L ~ 0 and chroma ~ 0 special cases): full product of {0, 2^-k, k = 7..24}
    {
        let mut dk = vec![0.0f32];
        for k in 7..=24 {
            dk.push(2f32.powi(-k));
        }
        // ... and on through the smallest normals into the subnormals (chroma and lightness that
        // underflow or overflow when inverted)
        for k in [30, 40, 60, 80, 100, 110, 120, 122, 123, 124, 125, 126] {
            dk.push(2f32.powi(-k));
        }
        dk.push(1e-37);
        dk.push(1.5e-37);
        dk.push(f32::MIN_POSITIVE);
        dk.push(f32::from_bits(0x0040_0000));
        dk.push(f32::from_bits(1));
        for &r in &dk {
            for &g in &dk {
                for &b in &dk {
                    shell.push([r, g, b]);
                    // and the mirrored near-white colours
                    shell.push([1.0 - r, 1.0 - g, 1.0 - b]);
                }
            }
        }
    }
    // low chroma with a near-tie of the two largest channels (the sextant decision is most
    // sensitive there: a hue error of 60*d/c degrees if the wrong channel is taken as the maximum)
    for lo in [0.0f32, 0.25, 0.5, 0.9] {
        for c in [0.01f32, 0.0101, 0.012, 0.02, 0.05] {
            let hi = lo + c;
            for d in [1.2e-7f32, 1e-6, 2e-6, 5e-6, 9e-6, 2e-5, 1e-4, 1e-3] {
                let hi2 = hi - d;
                if hi2 <= lo {
                    continue;
                }
                for perm in [[hi, hi2, lo], [hi2, hi, lo], [lo, hi, hi2], [lo, hi2, hi], [hi, lo, hi2], [hi2, lo, hi]] {
                    shell.push(perm);
                }
            }
        }
    }
    let mut acc = Acc::default();
    check_rgb(&mut acc, total, &shell);
    rep.acc.merge(acc);
    // HSL side
    let mut hs: Vec<f32> = (0..1440).map(|i| i as f32 * 0.25).collect();
    for k in 0..6 {
        let v = 60.0 * k as f32;
        hs.push(f32::from_bits(v.to_bits() + 1));
        if k > 0 {
            hs.push(f32::from_bits(v.to_bits() - 1));
        }
    }
    hs.push(f32::from_bits(360f32.to_bits() - 1));
    let mut sl: Vec<f32> = (0..=64).map(|i| i as f32 / 64.0).collect();
    sl.push(f32::from_bits(1));
    sl.push(f32::from_bits(1f32.to_bits() - 1));
    let (nh, ns) = (hs.len() as u64, sl.len() as u64);
    let acc = par_chunks_varied(nh * ns * ns, 1 << 14, |acc, lo, hi| {
        let px: Vec<[f32; 3]> = (lo..hi).map(|i| [hs[(i / (ns * ns)) as usize], sl[((i / ns) % ns) as usize], sl[(i % ns) as usize]]).collect();
        check_hsl(acc, total + 100_000 + lo, &px);
        crate::img::echo_check(acc, total + 100_000 + lo, "LinearRgb::from(Hsl)", &px, &|p| from_hsl(p), "c17echo", &json!({"dir":"from_hsl"}));
        crate::img::refine_violations(acc, total + 100_000 + lo, &px, 1, &|a, it| check_hsl(a, 0, it), &pxs_json);
    });
    rep.acc.merge(acc);
    rep.bound = format!(
        "RGB: full product {{i/{}}}^3 = {total} pixels (contains all sextant boundaries, greys, black, white) + {} near-grey / near-boundary pixels (max-min in {{1e-7,1e-6,1e-4,1e-2,0.1}} at 65 base levels; dark / near-white product {{0, 2^-k}}^3; low chroma with a near-tie of the two largest channels; large chroma with two channels 1 ulp .. 1e-5 apart, i.e. hues next to every sextant boundary incl. the 0/360 wrap; all 6 channel orders); HSL: {nh} hues (0.25 degree steps, +-1 ulp around every multiple of 60, largest f32 below 360) x {ns}^2 (S,L) values",
        n - 1, shell.len()
    );
    rep.rule = "Hsl::from(LinearRgb) on every pixel: H in [0,360), S,L in [0,1]; L within 1e-6, S within 1e-4 (0.01<=L<=0.99), H within 0.01 degrees mod 360 (max-min>=0.01) of the f64 hexcone; LinearRgb::from(Hsl::from(p)) within 1e-5 of p; L=0 -> black, L=1 -> white for every H,S".into();
    rep.assumptions = vec!["[0,1]^3 bounded by the stated lattice plus near-grey shells".into()];
    for s in ["grey", "sextant 0 (R>=G>=B)", "sextant 1 (G>=R>=B)", "sextant 2 (G>=B>=R)", "sextant 3 (B>=G>=R)", "sextant 4 (B>=R>=G)", "sextant 5 (R>=B>=G)"] {
        rep.guard_bucket(s);
    }
    rep.guard_bucket("L=0 -> black");
    rep.guard_bucket("L=1 -> white");
    rep
}

pub fn replay(case: &Value) -> (bool, String) {
    if case["kind"] == "c17echo" {
        return if case["dir"] == "to_hsl" { crate::img::echo_replay(case, &|p| to_hsl(p)) } else { crate::img::echo_replay(case, &|p| from_hsl(p)) };
    }
    let mut acc = Acc::default();
    if case["kind"] == "c17" {
        let (items, shape) = crate::img::replay_items(case, vec![px3_from(&case["rgb"])], &pxs_from);
        crate::img::with_shape(shape, || check_rgb(&mut acc, 0, &items));
    } else {
        let (items, shape) = crate::img::replay_items(case, vec![px3_from(&case["hsl"])], &pxs_from);
        crate::img::with_shape(shape, || check_hsl(&mut acc, 0, &items));
    }
    match acc.viols.values().next() {
        Some(v) => (true, format!("{} :: {}", v.key, v.detail)),
        None => (false, "ok".into()),
    }
}
