//! C02 — RGB->YUV encoding rounds to the nearest code of the H.273 quantisation.

use super::c01::{configs, Cfg};
use crate::explore::*;
use crate::img::*;
use crate::refmodel::*;
use serde_json::{json, Value};
use yuvxyb::{ColorPrimaries as CP, Pixel, Rgb, TransferCharacteristic as TC, Yuv};

fn encode<T: Pixel>(c: &Cfg, px: &[[f32; 3]]) -> Result<[Vec<u16>; 3], String> {
    let len = px.len();
    let (w, h) = shape_of(len);
    let rgb = Rgb::new(px.to_vec(), w, h, TC::BT1886, CP::BT709).map_err(|e| format!("Rgb::new {e:?}"))?;
    let cfg = cfg444(c.n, c.full, c.m);
    let yuv = guarded(|| Yuv::<T>::try_from((&rgb, cfg)))?.map_err(|e| format!("conversion error {e:?}"))?;
    if yuv.width() != w || yuv.height() != h {
        return Err(format!("dims changed to {}x{}", yuv.width(), yuv.height()));
    }
    if yuv.config() != cfg {
        return Err(format!("config changed to {:?}", yuv.config()));
    }
    for p in yuv.data() {
        if p.cfg.width != w || p.cfg.height != h {
            return Err(format!("plane size {}x{}", p.cfg.width, p.cfg.height));
        }
    }
    Ok([plane_samples(&yuv.data()[0]), plane_samples(&yuv.data()[1]), plane_samples(&yuv.data()[2])])
}

fn encode_dyn(c: &Cfg, px: &[[f32; 3]]) -> Result<[Vec<u16>; 3], String> {
    if c.wide {
        encode::<u16>(c, px)
    } else {
        encode::<u8>(c, px)
    }
}

pub fn ideal(c: &Cfg, px: [f32; 3]) -> [f64; 3] {
    let y = rgb_to_ypbpr(c.m, [px[0] as f64, px[1] as f64, px[2] as f64]);
    let n = c.n as u32;
    [quant_luma(y[0], n, c.full), quant_chroma(y[1], n, c.full), quant_chroma(y[2], n, c.full)]
}

fn check_batch(acc: &mut Acc, c: &Cfg, stratum: &str, base: u64, px: &[[f32; 3]]) {
    let len = px.len();
    acc.states += len as u64;
    acc.transitions += len as u64;
    let mk = |i: usize| json!({"kind":"c02","cfg":c.json(),"rgb":px3j(px[i])});
    let out = match encode_dyn(c, px) {
        Ok(o) => o,
        Err(e) => {
            acc.violation(base, format!("encode-failed {} {}", c.key(), panic_site(&e)), e, mk(0));
            return;
        }
    };
    let slack = 0.5 + 1e-6 * (1u64 << c.n) as f64;
    let mut worst = 0.0f64;
    let mut wi = 0usize;
    let mut clamped = 0u64;
    for i in 0..len {
        let id = ideal(c, px[i]);
        let max = ((1u32 << c.n) - 1) as f64;
        for p in 0..3 {
            let d = (out[p][i] as f64 - id[p]).abs();
            if d > worst {
                worst = d;
                wi = i;
            }
            if !(d <= slack) {
                acc.violation(
                    base + i as u64,
                    format!("encode-not-nearest {} plane={}", c.key(), p),
                    format!(
                        "rgb={} encoded as ({},{},{}), ideal ({:.5},{:.5},{:.5}): plane {} off by {:.5} > {:.6}",
                        px3s(px[i]), out[0][i], out[1][i], out[2][i], id[0], id[1], id[2], p, d, slack
                    ),
                    mk(i),
                );
                acc.bucket("not nearest", 1);
                return;
            }
            if id[p] == 0.0 || id[p] == max {
                clamped += 1;
            }
        }
    }
    acc.bucket(&format!("{stratum}: within rounding"), len as u64);
    acc.bucket("components clamped at a code range end", clamped);
    acc.worst(&format!("code_err/slack depth={}", c.n), worst / slack, || mk(wi));
}

fn next_up(x: f32) -> f32 {
    let b = x.to_bits();
    if x == 0.0 {
        f32::from_bits(1)
    } else if x > 0.0 {
        f32::from_bits(b + 1)
    } else {
        f32::from_bits(b - 1)
    }
}
fn next_down(x: f32) -> f32 {
    -next_up(-x)
}

fn axis_alphabet(tier: Tier) -> Vec<f32> {
    let steps: i32 = if light() { 16 } else { tier.pick(80, 400) };
    let mut v: Vec<f32> = (0..=steps).map(|i| (-0.5 + 2.0 * i as f64 / steps as f64) as f32).collect();
    for s in [0.0f32, 1.0, 0.5, 0.25, 0.75] {
        v.push(next_up(s));
        v.push(next_down(s));
    }
    v.push(next_up(-0.5));
    v.push(next_down(1.5));
    v.push(-0.0);
    v.sort_by(|a, b| a.partial_cmp(b).unwrap().then(a.to_bits().cmp(&b.to_bits())));
    v.dedup_by(|a, b| a.to_bits() == b.to_bits());
    v
}

/// Rounding-edge preimages: for every plane and every code c, pixels whose *ideal* value on that
/// plane is c, c+0.5-eps, c+0.5+eps (eps = 1e-3 code), built through the reference inverse.
fn edge_pixels(c: &Cfg) -> Vec<[f32; 3]> {
    let n = c.n as u32;
    let ncodes = 1u32 << n;
    let mut out = Vec::new();
    let (lscale, loff, cscale, coff) = if c.full {
        let m = (ncodes - 1) as f64;
        (m, 0.0, m, (ncodes / 2) as f64)
    } else {
        let k = (1u32 << (n - 8)) as f64;
        (219.0 * k, 16.0 * k, 224.0 * k, 128.0 * k)
    };
    for code in 0..ncodes {
        for d in [0.0, 0.5 - 1e-3, 0.5, 0.5 + 1e-3] {
            let t = code as f64 + d;
            // luma: neutral axis
            let y = (t - loff) / lscale;
            if (-0.5..=1.5).contains(&y) {
                out.push([y as f32; 3]);
            }
            // chroma excursions
            let cc = (t - coff) / cscale;
            for yy in [0.25, 0.5, 0.75] {
                for plane in 1..3 {
                    let rgb = if plane == 1 { ypbpr_to_rgb(c.m, yy, cc, 0.0) } else { ypbpr_to_rgb(c.m, yy, 0.0, cc) };
                    if rgb.iter().all(|v| (-0.5..=1.5).contains(v)) {
                        out.push([rgb[0] as f32, rgb[1] as f32, rgb[2] as f32]);
                    }
                }
            }
        }
    }
    out
}

/// Exact rounding ties at the ends and the middle of the code range: f32 inputs in a +-24-ulp
/// window around the preimage of -0.5, 0.5, mid+-0.5, max-0.5 and max+0.5 (= 2^n - 0.5) on the
/// neutral axis and on pure chroma excursions. One ulp of the input moves the scaled value by about
/// half an ulp of the result, so the window contains inputs whose scaled value is *exactly* the tie.
fn tie_pixels(c: &Cfg) -> Vec<[f32; 3]> {
    let n = c.n as u32;
    let max = ((1u64 << n) - 1) as f64;
    let (lscale, loff, cscale, coff) = if c.full {
        (max, 0.0, max, (1u64 << (n - 1)) as f64)
    } else {
        let k = (1u64 << (n - 8)) as f64;
        (219.0 * k, 16.0 * k, 224.0 * k, 128.0 * k)
    };
    let mut out = vec![];
    let window = |x: f32, out: &mut Vec<f32>| {
        let b = x.to_bits() as i64;
        for d in -24i64..=24 {
            let v = f32::from_bits((b + d) as u32);
            if v.is_finite() {
                out.push(v);
            }
        }
    };
    for t in [-0.5, 0.5, max - 0.5, max + 0.5, (max + 1.0) / 2.0 - 0.5, (max + 1.0) / 2.0 + 0.5] {
        let mut ys = vec![];
        window(((t - loff) / lscale) as f32, &mut ys);
        for y in ys {
            if (-0.5..=1.5).contains(&y) {
                out.push([y; 3]);
            }
        }
        let cc = (t - coff) / cscale;
        for plane in 1..3 {
            let rgb = if plane == 1 { ypbpr_to_rgb(c.m, 0.5, cc, 0.0) } else { ypbpr_to_rgb(c.m, 0.5, 0.0, cc) };
            // vary the channel that drives this chroma component most (B for Cb, R for Cr)
            let drive = if plane == 1 { 2 } else { 0 };
            let mut vs = vec![];
            window(rgb[drive] as f32, &mut vs);
            for v in vs {
                let mut p = [rgb[0] as f32, rgb[1] as f32, rgb[2] as f32];
                p[drive] = v;
                if p.iter().all(|x| (-0.5..=1.5).contains(x)) {
                    out.push(p);
                }
            }
        }
    }
    out
}

fn pxs_json(it: &[[f32; 3]]) -> Value {
    json!(it.iter().map(|p| px3j(*p)).collect::<Vec<_>>())
}
fn pxs_from(v: &Value) -> Vec<[f32; 3]> {
    v.as_array().unwrap().iter().map(px3_from).collect()
}

pub fn run(tier: Tier) -> Report {
    let mut rep = Report::new("C02");
    let cfgs = configs();
    let alpha = axis_alphabet(tier);
    let al = alpha.len() as u64;
    let mut base = 0u64;
    let mut edge_total = 0u64;
    for c in &cfgs {
        // (c) corners / extremes first (simplest)
        let mut special: Vec<[f32; 3]> = vec![];
        for r in [0.0f32, 1.0] {
            for g in [0.0f32, 1.0] {
                for b in [0.0f32, 1.0] {
                    special.push([r, g, b]);
                }
            }
        }
        for a in 0..3 {
            for v in [-0.5f32, 1.5] {
                let mut p = [0.5f32; 3];
                p[a] = v;
                special.push(p);
            }
        }
        special.push([-0.0, 0.0, -0.0]);
        special.push([-0.5; 3]);
        special.push([1.5; 3]);
        let mut acc = Acc::default();
        check_batch(&mut acc, c, "corners", base, &special);
        base += special.len() as u64;
        rep.acc.merge(acc);
        // (a) lattice product
        let total = al * al * al;
        let acc = par_chunks_varied(total, 1 << 15, |acc, lo, hi| {
            let px: Vec<[f32; 3]> = (lo..hi)
                .map(|i| [alpha[(i / (al * al)) as usize], alpha[((i / al) % al) as usize], alpha[(i % al) as usize]])
                .collect();
            check_batch(acc, c, "lattice", base + lo, &px);
            refine_violations(acc, base + lo, &px, 1, &|a, it| check_batch(a, c, "lattice", 0, it), &pxs_json);
        });
        rep.acc.merge(acc);
        base += total;
        // (b) rounding edges of every code
        let edges = edge_pixels(c);
        edge_total += edges.len() as u64;
        let acc = par_chunks_varied(edges.len() as u64, 1 << 15, |acc, lo, hi| {
            check_batch(acc, c, "rounding-edge", base + lo, &edges[lo as usize..hi as usize]);
            refine_violations(acc, base + lo, &edges[lo as usize..hi as usize], 1, &|a, it| check_batch(a, c, "rounding-edge", 0, it), &pxs_json);
            if lo == 0 && c.n == 10 && c.m == yuvxyb::MatrixCoefficients::BT709 && !c.full {
                let i = edges.len().min(hi as usize) / 2;
                acc.sample(json!({"cfg": c.json(), "rgb": px3s(edges[i]), "ideal_codes": ideal(c, edges[i]).to_vec(), "stratum": "rounding-edge preimage"}));
            }
        });
        rep.acc.merge(acc);
        base += edges.len() as u64;
        // two large images per config (cycling the lattice)
        if !light() {
            for &big in BIG_SIZES.iter() {
                let px: Vec<[f32; 3]> = (0..big as u64).map(|k| { let i = (k * 7919) % total; [alpha[(i / (al * al)) as usize], alpha[((i / al) % al) as usize], alpha[(i % al) as usize]] }).collect();
                let mut acc = Acc::default();
                check_batch(&mut acc, c, "large-image", base, &px);
                refine_violations(&mut acc, base, &px, 1, &|a, it| check_batch(a, c, "large-image", 0, it), &pxs_json);
                rep.acc.merge(acc);
            }
        }
        // exact ties at the ends of the code range
        let ties = tie_pixels(c);
        if !ties.is_empty() {
            let mut acc = Acc::default();
            check_batch(&mut acc, c, "exact-tie", base, &ties);
            refine_violations(&mut acc, base, &ties, 1, &|a, it| check_batch(a, c, "exact-tie", 0, it), &pxs_json);
            rep.acc.merge(acc);
            base += ties.len() as u64;
        }
    }
    rep.bound = format!(
        "140 configs x [ full product of a {}-value axis alphabet on [-0.5,1.5] (step {}, f32 neighbours of 0, .25, .5, .75, 1, the interval ends, -0.0) = {} pixels; rounding-edge preimages of EVERY code of every plane at offsets 0, .5-1e-3, .5 (the exact tie), .5+1e-3, plus +-24-ulp input windows around the exact ties at -0.5, 0.5, mid+-0.5, max-0.5 and max+0.5 ({} pixels over all configs); 8 gamut corners + out-of-gamut extremes ]",
        al, tier.pick("0.025", "0.005"), al * al * al, edge_total
    );
    rep.rule = "each RGB pixel is encoded by the real Yuv::<T>::try_from((&Rgb, cfg)); the code read with Plane::p must be within 0.5 + 1e-6*2^n of the f64 H.273 quantisation of the actual f32 inputs; config, dims and plane sizes must be as requested".into();
    rep.assumptions = vec!["the continuous cube [-0.5,1.5]^3 is bounded by the stated lattice and the per-code rounding-edge preimages; pointwise behaviour per C11".into()];
    rep.guard_bucket("lattice: within rounding");
    rep.guard_bucket("rounding-edge: within rounding");
    rep.guard_bucket("components clamped at a code range end");
    rep
}

pub fn replay(case: &Value) -> (bool, String) {
    let c = Cfg::from_json(&case["cfg"]);
    let px = px3_from(&case["rgb"]);
    let mut acc = Acc::default();
    let (items, shape) = replay_items(case, vec![px], &pxs_from);
    for stratum in ["lattice", "rounding-edge", "corners", "exact-tie", "large-image"] {
        with_shape(shape, || check_batch(&mut acc, &c, stratum, 0, &items));
    }
    match acc.viols.values().next() {
        Some(v) => (true, format!("{} :: {}", v.key, v.detail)),
        None => (false, format!("ok {:?}", acc.worst.values().next().map(|w| w.0))),
    }
}
