//! C15 — Unspecified metadata is resolved deterministically and labels match content.

use crate::explore::*;
use crate::img::*;
use crate::refmodel::*;
use serde_json::{json, Value};
use yuvxyb::{
    ColorPrimaries as CP, Frame, LinearRgb, MatrixCoefficients as MC, Pixel, Plane, Rgb, TransferCharacteristic as TC, Xyb, Yuv,
    YuvConfig,
};

const WS: [usize; 9] = [1, 2, 3, 16, 720, 1279, 1280, 1281, 1920];
fn hs() -> Vec<usize> {
    let mut v = vec![1, 2, 3];
    v.extend(479..=489);
    v.extend([575, 576, 577, 1080]);
    v
}

/// Reference transcription of the documented rule.
pub fn resolve(cfg: YuvConfig, w: usize, h: usize) -> YuvConfig {
    let mut c = cfg;
    if c.matrix_coefficients == MC::Unspecified {
        c.matrix_coefficients = guess_matrix(w, h);
    }
    if c.color_primaries == CP::Unspecified {
        c.color_primaries = guess_primaries(c.matrix_coefficients, w, h);
    }
    if c.transfer_characteristics == TC::Unspecified {
        c.transfer_characteristics = TC::BT1886;
    }
    c
}

fn cfg_json(c: &YuvConfig) -> Value {
    json!({"depth":c.bit_depth,"ss":[c.subsampling_x,c.subsampling_y],"full":c.full_range,"matrix":format!("{:?}",c.matrix_coefficients),"transfer":format!("{:?}",c.transfer_characteristics),"primaries":format!("{:?}",c.color_primaries)})
}
fn cfg_from(v: &Value) -> YuvConfig {
    YuvConfig {
        bit_depth: v["depth"].as_u64().unwrap() as u8,
        subsampling_x: v["ss"][0].as_u64().unwrap() as u8,
        subsampling_y: v["ss"][1].as_u64().unwrap() as u8,
        full_range: v["full"].as_bool().unwrap(),
        matrix_coefficients: mc_from_name(v["matrix"].as_str().unwrap()),
        transfer_characteristics: tc_from_name(v["transfer"].as_str().unwrap()),
        color_primaries: cp_from_name(v["primaries"].as_str().unwrap()),
    }
}

/// The metadata alphabet of part (a): all 15 matrices x 8 subsets of Unspecified fields, the
/// other fields from a 3-value alphabet.
fn configs_a() -> Vec<YuvConfig> {
    let mut v = vec![];
    let prim = [CP::Unspecified, CP::BT709, CP::BT470M, CP::P3DCI];
    let tran = [TC::Unspecified, TC::BT1886, TC::SRGB, TC::PerceptualQuantizer];
    for &m in ALL_MATRICES.iter() {
        for &p in prim.iter() {
            for &t in tran.iter() {
                v.push(cfg_full(8, false, (0, 0), m, t, p));
            }
        }
    }
    v
}

fn check_resolution(acc: &mut Acc, idx: u64, w: usize, h: usize, cfgs: &[YuvConfig]) {
    check_resolution_t::<u8>(acc, idx, w, h, cfgs, 8, (0, 0));
    // subsampled frames of the same luma size: the rule speaks about the image's (luma) dimensions,
    // and the rest of the config - the subsampling included - must come back as given
    for ss in [(1u8, 1u8), (1, 0), (0, 1), (2, 0)] {
        if w % (1 << ss.0) == 0 && h % (1 << ss.1) == 0 && w * h <= 700_000 {
            check_resolution_t::<u8>(acc, idx, w, h, cfgs, 8, ss);
        }
    }
    // the other storage / depth classes take different paths through the constructor (sample scan
    // for u16 below 16 bit, none at 16 bit); sizes are limited where the scan would dominate
    if w * h <= 20_000 {
        check_resolution_t::<u16>(acc, idx, w, h, cfgs, 10, (0, 0));
    }
    if w * h <= 200_000 {
        check_resolution_t::<u16>(acc, idx, w, h, cfgs, 16, (0, 0));
    }
}

fn check_resolution_t<T: Pixel>(acc: &mut Acc, idx: u64, w: usize, h: usize, cfgs: &[YuvConfig], depth: u8, ss: (u8, u8)) {
    let (sx, sy) = (ss.0 as usize, ss.1 as usize);
    // two differently padded frames with the same visible geometry (samples are all 0: in range at any depth)
    let mk_frame = |pad: usize| -> Frame<T> {
        let mut f: Frame<T> = Frame { planes: [Plane::new(w, h, 0, 0, pad, pad), Plane::new(w >> sx, h >> sy, sx, sy, pad, pad), Plane::new(w >> sx, h >> sy, sx, sy, pad, pad)] };
        for p in f.planes.iter_mut() {
            for v in p.data.iter_mut() {
                *v = T::cast_from(0u16);
            }
        }
        f
    };
    let (f0, f1) = (mk_frame(0), mk_frame(3));
    for c0 in cfgs {
        let mut cc = *c0;
        cc.bit_depth = depth;
        cc.subsampling_x = ss.0;
        cc.subsampling_y = ss.1;
        let c = &cc;
        let case = || json!({"kind":"c15res","w":w,"h":h,"cfg":cfg_json(c),"u16":std::mem::size_of::<T>()==2});
        acc.states += 1;
        acc.transitions += 3;
        let mut seen = vec![];
        for f in [&f0, &f1, &f0] {
            match guarded(|| Yuv::new(f.clone(), *c)) {
                Ok(Ok(y)) => seen.push(y.config()),
                Ok(Err(e)) => {
                    acc.violation(idx, "well-formed-frame-rejected".into(), format!("{w}x{h} {c:?} -> {e:?}"), case());
                    return;
                }
                Err(p) => {
                    acc.violation(idx, format!("yuv-new-panic {}", panic_site(&p)), p, case());
                    return;
                }
            }
        }
        let want = resolve(*c, w, h);
        let got = seen[0];
        if got.matrix_coefficients == MC::Unspecified || got.color_primaries == CP::Unspecified || got.transfer_characteristics == TC::Unspecified {
            acc.violation(idx, "still-unspecified-after-construction".into(), format!("{w}x{h} {c:?} -> {got:?}"), case());
            return;
        }
        if seen[1] != got || seen[2] != got {
            acc.violation(idx, "resolution-not-pure".into(), format!("{w}x{h} {c:?}: {:?} vs {:?} vs {:?}", seen[0], seen[1], seen[2]), case());
            return;
        }
        if got != want {
            let field = if got.matrix_coefficients != want.matrix_coefficients {
                "matrix"
            } else if got.color_primaries != want.color_primaries {
                "primaries"
            } else if got.transfer_characteristics != want.transfer_characteristics {
                "transfer"
            } else {
                "other"
            };
            acc.violation(idx, format!("resolution-differs-from-documented-rule field={field}"), format!("{w}x{h} {c:?}: got {got:?}, documented rule gives {want:?}"), case());
            return;
        }
        let unspec = (c.matrix_coefficients == MC::Unspecified) as u8 + (c.color_primaries == CP::Unspecified) as u8 + (c.transfer_characteristics == TC::Unspecified) as u8;
        acc.bucket(&format!("Yuv::new resolved per rule ({unspec} Unspecified fields)"), 1);
        acc.bucket(&format!("Yuv::new resolved per rule, storage {} depth {depth}", if std::mem::size_of::<T>() == 2 { "u16" } else { "u8" }), 1);
        acc.bucket(&format!("resolved matrix {:?}", got.matrix_coefficients), (c.matrix_coefficients == MC::Unspecified) as u64);
        acc.bucket(&format!("resolved primaries {:?}", got.color_primaries), (c.color_primaries == CP::Unspecified) as u64);
    }
}

fn check_rgb_labels(acc: &mut Acc) {
    for &t in ALL_TRANSFERS.iter() {
        for &p in ALL_PRIMARIES.iter() {
            let case = || json!({"kind":"c15rgb","transfer":format!("{t:?}"),"primaries":format!("{p:?}")});
            acc.states += 1;
            acc.transitions += 2;
            let want_t = if t == TC::Unspecified { TC::SRGB } else { t };
            let want_p = if p == CP::Unspecified { CP::BT709 } else { p };
            match guarded(|| Rgb::new(vec![[0.5; 3]; 2], 2, 1, t, p)) {
                Ok(Ok(r)) => {
                    if r.transfer() != want_t || r.primaries() != want_p {
                        acc.violation(0, "rgb-new-labels".into(), format!("Rgb::new({t:?},{p:?}) reports {:?}/{:?}, documented: {want_t:?}/{want_p:?}", r.transfer(), r.primaries()), case());
                        return;
                    }
                    acc.bucket("Rgb::new labels per rule", 1);
                }
                other => {
                    acc.violation(0, "rgb-new-failed".into(), format!("Rgb::new({t:?},{p:?}) -> {:?}", other.map(|r| r.map(|_| ()))), case());
                    return;
                }
            }
            let lin = LinearRgb::new(vec![[0.5; 3]; 2], 2, 1).unwrap();
            match guarded(|| Rgb::try_from((lin, t, p))) {
                Ok(Ok(r)) => {
                    if r.transfer() != want_t || r.primaries() != want_p {
                        acc.violation(0, "lin-to-rgb-labels".into(), format!("Rgb::try_from((lin,{t:?},{p:?})) reports {:?}/{:?}, documented: {want_t:?}/{want_p:?}", r.transfer(), r.primaries()), case());
                        return;
                    }
                    acc.bucket("Rgb::try_from((LinearRgb,t,p)) labels per rule", 1);
                }
                Ok(Err(_)) => acc.bucket("Rgb::try_from((LinearRgb,t,p)) unsupported", 1),
                Err(pn) => {
                    acc.violation(0, format!("lin-to-rgb-panic {}", panic_site(&pn)), pn, case());
                    return;
                }
            }
        }
    }
}

// ---------------------------------------------------------------------------------------------
// (b) labels match content

/// Fully saturated colours: used only where the input is already gamma-encoded RGB in the target
/// space (Rgb -> Yuv), i.e. in gamut by construction. Linear-light inputs keep the moderate palette
/// below: a pure BT.709 primary is out of gamut in some target primaries, where the transfer curves
/// clip negative values and the round trip is legitimately lossy (C09 is about in-gamut images).
const PALETTE_SAT: [[f32; 3]; 6] = [[1.0, 0.0, 0.0], [0.0, 1.0, 0.0], [0.0, 0.0, 1.0], [1.0, 1.0, 0.0], [0.0, 1.0, 1.0], [1.0, 0.0, 1.0]];
const PALETTE: [[f32; 3]; 8] = [
    [0.2, 0.2, 0.2],
    [0.8, 0.1, 0.1],
    [0.1, 0.7, 0.2],
    [0.15, 0.2, 0.9],
    [0.5, 0.5, 0.5],
    [0.9, 0.8, 0.1],
    [0.05, 0.05, 0.05],
    [0.95, 0.95, 0.95],
];

fn image(w: usize, h: usize) -> Vec<[f32; 3]> {
    (0..w * h).map(|i| PALETTE[(i % w + i / w) % 8]).collect()
}
fn image_sat(w: usize, h: usize) -> Vec<[f32; 3]> {
    (0..w * h).map(|i| { let k = (i % w + i / w) % 14; if k < 6 { PALETTE_SAT[k] } else { PALETTE[k - 6] } }).collect()
}

#[derive(Clone, Copy, Debug, PartialEq)]
pub enum Src {
    Lin,
    Xyb,
    Rgb,
}

fn planes_of<T: Pixel>(y: &Yuv<T>) -> [Vec<u16>; 3] {
    [plane_samples(&y.data()[0]), plane_samples(&y.data()[1]), plane_samples(&y.data()[2])]
}

/// Convert `src` image into Yuv<T> with `cfg` (possibly containing Unspecified fields); if it
/// succeeds, decode with the stored config and compare with the input in code units.
fn content_yuv<T: Pixel>(acc: &mut Acc, idx: u64, src: Src, w: usize, h: usize, cfg: YuvConfig) {
    let case = || json!({"kind":"c15content","src":format!("{src:?}"),"w":w,"h":h,"cfg":cfg_json(&cfg),"u16":std::mem::size_of::<T>()==2});
    let data = if src == Src::Rgb { image_sat(w, h) } else { image(w, h) };
    acc.states += 1;
    acc.transitions += 1;
    // the input expressed as linear RGB (what "the input" means for every source kind)
    let out: Result<Result<Yuv<T>, yuvxyb::ConversionError>, String> = guarded(|| match src {
        Src::Lin => Yuv::<T>::try_from((LinearRgb::new(data.clone(), w, h).unwrap(), cfg)),
        Src::Xyb => Yuv::<T>::try_from((Xyb::from(LinearRgb::new(data.clone(), w, h).unwrap()), cfg)),
        Src::Rgb => Yuv::<T>::try_from((&Rgb::new(data.clone(), w, h, TC::SRGB, CP::BT709).unwrap(), cfg)),
    });
    let yuv = match out {
        Err(p) => {
            acc.violation(idx, format!("conversion-panic src={src:?} {}", panic_site(&p)), p, case());
            return;
        }
        Ok(Err(_)) => {
            acc.bucket("conversion with Unspecified fields rejected (property silent)", 1);
            return;
        }
        Ok(Ok(y)) => y,
    };
    let stored = yuv.config();
    if stored.matrix_coefficients == MC::Unspecified || stored.color_primaries == CP::Unspecified || stored.transfer_characteristics == TC::Unspecified {
        acc.violation(idx, format!("output-still-unspecified src={src:?}"), format!("{w}x{h} {cfg:?} -> stored {stored:?}"), case());
        return;
    }
    let want = resolve(cfg, w, h);
    if stored != want {
        acc.violation(idx, format!("output-config-differs-from-documented-rule src={src:?}"), format!("{w}x{h} {cfg:?} -> stored {stored:?}, rule gives {want:?}"), case());
        return;
    }
    // decode with the stored config, re-encode both the decoded image and the input with the
    // (fully specified) stored config and compare in codes
    acc.transitions += 3;
    let res: Result<([Vec<u16>; 3], [Vec<u16>; 3]), String> = (|| {
        match src {
            Src::Rgb => {
                let dec = Rgb::try_from(&yuv).map_err(|e| format!("decode with own config failed: {e:?}"))?;
                // literal reading for a gamma-RGB input: the decoded pixels reproduce the input
                // pixels within the same fraction of full scale as the C09 code budget
                let frac = (1.0 / ((1u32 << stored.bit_depth) - 1) as f64).max(0.015);
                for (a, b) in dec.data().iter().zip(data.iter()) {
                    for k in 0..3 {
                        let d = (a[k] as f64 - b[k] as f64).abs();
                        if !(d <= frac) {
                            return Err(format!("RGBDOMAIN decoding the output with its own config gives {} for the input pixel {}: off by {d:.4} > {frac:.4} of full scale", px3s(*a), px3s(*b)));
                        }
                    }
                }
                let re = Yuv::<T>::try_from((&dec, stored)).map_err(|e| format!("{e:?}"))?;
                let orig = Yuv::<T>::try_from((&Rgb::new(data.clone(), w, h, stored.transfer_characteristics, stored.color_primaries).unwrap(), stored)).map_err(|e| format!("{e:?}"))?;
                Ok((planes_of(&re), planes_of(&orig)))
            }
            _ => {
                let dec = LinearRgb::try_from(&yuv).map_err(|e| format!("decode with own config failed: {e:?}"))?;
                let re = Yuv::<T>::try_from((dec, stored)).map_err(|e| format!("{e:?}"))?;
                let inp = match src {
                    Src::Xyb => LinearRgb::from(Xyb::from(LinearRgb::new(data.clone(), w, h).unwrap())),
                    _ => LinearRgb::new(data.clone(), w, h).unwrap(),
                };
                let orig = Yuv::<T>::try_from((inp, stored)).map_err(|e| format!("{e:?}"))?;
                Ok((planes_of(&re), planes_of(&orig)))
            }
        }
    })();
    let (re, orig) = match res {
        Ok(x) => x,
        Err(e) if e.starts_with("RGBDOMAIN") => {
            acc.violation(idx, format!("labels-do-not-match-content src={src:?} (rgb domain)"), format!("{w}x{h} {cfg:?} stored {stored:?}: {}", &e[10..]), case());
            return;
        }
        Err(e) => {
            acc.violation(idx, format!("stored-config-unusable src={src:?}"), format!("{w}x{h} {cfg:?} stored {stored:?}: {e}"), case());
            return;
        }
    };
    let budget = (0.015 * ((1u32 << stored.bit_depth) - 1) as f64).max(1.0);
    let mut worst = 0.0f64;
    for p in 0..3 {
        for i in 0..re[p].len() {
            worst = worst.max((re[p][i] as f64 - orig[p][i] as f64).abs());
        }
    }
    if worst > budget {
        let which = [
            (cfg.matrix_coefficients == MC::Unspecified, "matrix"),
            (cfg.color_primaries == CP::Unspecified, "primaries"),
            (cfg.transfer_characteristics == TC::Unspecified, "transfer"),
        ]
        .iter()
        .filter(|x| x.0)
        .map(|x| x.1)
        .collect::<Vec<_>>()
        .join("+");
        acc.violation(
            idx,
            format!("labels-do-not-match-content src={src:?} unspecified={which}"),
            format!("{w}x{h} {cfg:?}: stored config {stored:?}; decoding the output with it and re-encoding differs from the input by {worst} codes > {budget:.2}"),
            case(),
        );
        return;
    }
    acc.bucket(&format!("labels match content (src {src:?})"), 1);
    acc.worst("content mismatch in codes / budget", worst / budget, case);
}

fn content_rgb(acc: &mut Acc, idx: u64, from_xyb: bool, t: TC, p: CP) {
    let case = || json!({"kind":"c15contentrgb","from_xyb":from_xyb,"transfer":format!("{t:?}"),"primaries":format!("{p:?}")});
    let (w, h) = (4, 2);
    let data = image(w, h);
    acc.states += 1;
    acc.transitions += 2;
    let lin = || if from_xyb { LinearRgb::from(Xyb::from(LinearRgb::new(data.clone(), w, h).unwrap())) } else { LinearRgb::new(data.clone(), w, h).unwrap() };
    let out = guarded(|| if from_xyb { Rgb::try_from((Xyb::from(LinearRgb::new(data.clone(), w, h).unwrap()), t, p)) } else { Rgb::try_from((lin(), t, p)) });
    let rgb = match out {
        Err(pn) => {
            acc.violation(idx, format!("conversion-panic into-rgb {}", panic_site(&pn)), pn, case());
            return;
        }
        Ok(Err(_)) => {
            acc.bucket("conversion with Unspecified fields rejected (property silent)", 1);
            return;
        }
        Ok(Ok(r)) => r,
    };
    if rgb.transfer() == TC::Unspecified || rgb.primaries() == CP::Unspecified {
        acc.violation(idx, "output-still-unspecified into-rgb".into(), format!("({t:?},{p:?}) -> {:?}/{:?}", rgb.transfer(), rgb.primaries()), case());
        return;
    }
    // decode with own labels -> linear; compare with the input in 10-bit BT709 codes
    let back = match guarded(|| LinearRgb::try_from(rgb.clone())) {
        Ok(Ok(l)) => l,
        other => {
            acc.violation(idx, "stored-config-unusable into-rgb".into(), format!("({t:?},{p:?}) stored {:?}/{:?}: {:?}", rgb.transfer(), rgb.primaries(), other.map(|r| r.map(|_| ()))), case());
            return;
        }
    };
    let cfg = cfg_full(10, false, (0, 0), MC::BT709, TC::BT1886, CP::BT709);
    let (a, b) = match guarded(|| (planes_of(&Yuv::<u16>::try_from((back, cfg)).unwrap()), planes_of(&Yuv::<u16>::try_from((lin(), cfg)).unwrap()))) {
        Ok(x) => x,
        Err(pn) => {
            acc.violation(idx, format!("conversion-panic into-rgb {}", panic_site(&pn)), pn, case());
            return;
        }
    };
    let mut worst = 0.0f64;
    for pl in 0..3 {
        for i in 0..a[pl].len() {
            worst = worst.max((a[pl][i] as f64 - b[pl][i] as f64).abs());
        }
    }
    if worst > 15.0 {
        acc.violation(idx, "labels-do-not-match-content into-rgb".into(), format!("({t:?},{p:?}) stored {:?}/{:?}: differs by {worst} 10-bit codes", rgb.transfer(), rgb.primaries()), case());
        return;
    }
    acc.bucket("labels match content (into Rgb)", 1);
}

fn content_configs() -> Vec<YuvConfig> {
    let mut v = vec![];
    for &m in ALL_MATRICES.iter() {
        for mu in [false, true] {
            if mu && m != MC::Unspecified {
                continue;
            }
            for &p in [CP::Unspecified, CP::BT709, CP::BT2020].iter() {
                for &t in [TC::Unspecified, TC::SRGB, TC::BT1886].iter() {
                    for (n, full) in [(8u8, false), (10, true), (16, false)] {
                        v.push(cfg_full(n, full, (0, 0), m, t, p));
                    }
                }
            }
        }
    }
    // the specified fields range over ALL their supported values (a shortcut keyed on one transfer
    // or one primaries value must meet an Unspecified neighbour): four matrices x every supported
    // primaries + Unspecified x every supported transfer + Unspecified
    for &m in [MC::Unspecified, MC::BT709, MC::ST170M, MC::BT2020NonConstantLuminance].iter() {
        for &p in std::iter::once(&CP::Unspecified).chain(SUPPORTED_PRIMARIES.iter()) {
            for &t in std::iter::once(&TC::Unspecified).chain(SUPPORTED_TRANSFERS.iter()) {
                let c = cfg_full(8, false, (0, 0), m, t, p);
                if !v.contains(&c) {
                    v.push(c);
                }
            }
        }
    }
    v
}

pub fn run(tier: Tier) -> Report {
    let mut rep = Report::new("C15");
    // (a)
    let cfgs = configs_a();
    let hs = hs();
    let mut sizes: Vec<(usize, usize)> = WS.iter().flat_map(|&w| hs.iter().map(move |&h| (w, h))).collect();
    // beyond the sizes the property lists: dimensions at and above 2^16 (the rule has no upper limit)
    sizes.extend([(65535, 2), (65536, 2), (65537, 1), (2, 65536), (2, 66112), (1, 70000)]);
    let acc = par_chunks(sizes.len() as u64, 1, |acc, lo, _| {
        let (w, h) = sizes[lo as usize];
        check_resolution(acc, lo, w, h, &cfgs);
        if lo == 0 {
            acc.sample(json!({"size":[w,h],"configs":cfgs.len(),"example_cfg":cfg_json(&cfgs[2]),"resolved":cfg_json(&resolve(cfgs[2], w, h))}));
        }
    });
    rep.acc.merge(acc);
    let mut acc = Acc::default();
    check_rgb_labels(&mut acc);
    rep.acc.merge(acc);
    // (b)
    let mut csizes: Vec<(usize, usize)> = vec![];
    for w in [1usize, 2] {
        for h in [480usize, 488, 576, 577, 100] {
            csizes.push((w, h));
        }
    }
    csizes.push((1280, 1));
    csizes.push((1280, 2));
    if tier == Tier::Thorough {
        csizes.extend([(1279, 2), (2, 481), (2, 575), (1281, 1), (16, 16), (3, 3)]);
    }
    let ccfgs = content_configs();
    let mut jobs = vec![];
    for &(w, h) in &csizes {
        for c in &ccfgs {
            for src in [Src::Lin, Src::Xyb, Src::Rgb] {
                jobs.push((w, h, *c, src));
            }
        }
    }
    let base = 1_000_000u64;
    let acc = par_chunks(jobs.len() as u64, 16, |acc, lo, hi| {
        for i in lo..hi {
            let (w, h, c, src) = jobs[i as usize];
            if c.bit_depth == 8 {
                content_yuv::<u8>(acc, base + i, src, w, h, c);
            } else {
                content_yuv::<u16>(acc, base + i, src, w, h, c);
            }
        }
    });
    rep.acc.merge(acc);
    let mut acc = Acc::default();
    let mut i = 0;
    for &t in ALL_TRANSFERS.iter() {
        for &p in ALL_PRIMARIES.iter() {
            if t == TC::Unspecified || p == CP::Unspecified {
                for fx in [false, true] {
                    content_rgb(&mut acc, 2 * base + i, fx, t, p);
                    i += 1;
                }
            }
        }
    }
    rep.acc.merge(acc);
    rep.bound = format!(
        "(a) {} sizes (W in {:?} x H in {{1,2,3,479..=489,575,576,577,1080}}, plus six sizes with a dimension at or above 2^16; u8/8 bit everywhere, u16/10 bit and u16/16 bit on the smaller sizes) x {} configs (all 15 matrix values x {{Unspecified + 3 values}} primaries x {{Unspecified + 3 values}} transfer, i.e. every subset of Unspecified fields) x 3 constructions (two paddings, repeated); all 19 x 14 label pairs for Rgb::new and Rgb::try_from((LinearRgb,..)); (b) {} sizes hitting every branch of the heuristic x {} configs x 3 source kinds into Yuv<u8>/Yuv<u16>, and every (t,p) pair with an Unspecified member into Rgb from LinearRgb and Xyb",
        sizes.len(), WS, cfgs.len(), csizes.len(), ccfgs.len()
    );
    rep.rule = "(a) config()/transfer()/primaries() never Unspecified, equal to the reference transcription of the documented mpv rule, identical across repetitions and paddings; (b) whenever a conversion given Unspecified fields succeeds, its stored config must be the documented resolution and decoding the output with that stored config must reproduce the input within max(1, 0.015*(2^n-1)) codes after re-encoding".into();
    rep.assumptions = vec!["sizes are bounded to the threshold neighbourhoods listed in the property".into()];
    for k in ["resolved matrix BT709", "resolved matrix BT470BG", "resolved matrix ST170M", "resolved primaries BT2020", "resolved primaries BT709", "resolved primaries BT470BG", "resolved primaries ST170M"] {
        rep.guard_bucket(k);
    }
    rep.guard_bucket("Yuv::new resolved per rule (3 Unspecified fields)");
    rep.guard_bucket("Yuv::new resolved per rule, storage u16 depth 10");
    rep.guard_bucket("Yuv::new resolved per rule, storage u16 depth 16");
    rep.guard_bucket("Rgb::new labels per rule");
    rep.guard_bucket("labels match content (src Lin)");
    rep.guard_bucket("labels match content (src Rgb)");
    rep.guard_bucket("labels match content (into Rgb)");
    rep
}

pub fn replay(case: &Value) -> (bool, String) {
    let mut acc = Acc::default();
    match case["kind"].as_str().unwrap() {
        "c15res" => {
            let (w, h, c) = (case["w"].as_u64().unwrap() as usize, case["h"].as_u64().unwrap() as usize, cfg_from(&case["cfg"]));
            if case["u16"].as_bool().unwrap_or(false) {
                check_resolution_t::<u16>(&mut acc, 0, w, h, &[c], c.bit_depth, (c.subsampling_x, c.subsampling_y))
            } else {
                check_resolution_t::<u8>(&mut acc, 0, w, h, &[c], c.bit_depth, (c.subsampling_x, c.subsampling_y))
            }
        }
        "c15rgb" => check_rgb_labels(&mut acc),
        "c15content" => {
            let src = match case["src"].as_str().unwrap() {
                "Lin" => Src::Lin,
                "Xyb" => Src::Xyb,
                _ => Src::Rgb,
            };
            let (w, h, c) = (case["w"].as_u64().unwrap() as usize, case["h"].as_u64().unwrap() as usize, cfg_from(&case["cfg"]));
            if case["u16"].as_bool().unwrap() {
                content_yuv::<u16>(&mut acc, 0, src, w, h, c)
            } else {
                content_yuv::<u8>(&mut acc, 0, src, w, h, c)
            }
        }
        _ => content_rgb(&mut acc, 0, case["from_xyb"].as_bool().unwrap(), tc_from_name(case["transfer"].as_str().unwrap()), cp_from_name(case["primaries"].as_str().unwrap())),
    }
    match acc.viols.values().next() {
        Some(v) => (true, format!("{} :: {}", v.key, v.detail)),
        None => (false, "ok".into()),
    }
}
