//! C11 — conversions are pointwise, order-preserving and layout-independent (metamorphic; no
//! expected values: whole-image conversion vs conversion of each pixel as a 1x1 image, same image
//! rebuilt with other padding, borrowed sources compared with a clone, conversions repeated).

use crate::explore::*;
use crate::img::*;
use serde_json::{json, Value};
use std::collections::HashMap;
use std::sync::atomic::Ordering;
use yuvxyb::{
    ColorPrimaries as CP, Frame, Hsl, LinearRgb, MatrixCoefficients as MC, Pixel, Plane, Rgb, TransferCharacteristic as TC, Xyb, Yuv,
    YuvConfig,
};

pub const SS: [(u8, u8); 6] = [(0, 0), (1, 0), (1, 1), (0, 1), (2, 0), (2, 2)];

fn sizes(tier: Tier) -> Vec<usize> {
    match tier {
        Tier::Quick => {
            let mut v: Vec<usize> = (1..=16).collect();
            v.extend([31, 32, 33, 63, 64]);
            v
        }
        Tier::Thorough => (1..=64).collect(),
    }
}

/// All (w,h) pairs: the full square of `sizes` plus a few long/large shapes (row lengths around
/// 128 and 256, tall single-column images) that exercise strides beyond one alignment unit, shapes
/// whose pixel count lies just above 4096 / 16384 / 65536 with a row count per such band that is odd
/// (37x116 ... 140x472), and one frame above 2^32 / width^2 rows (2561x1441, 4:4:4 only).
fn size_pairs(tier: Tier) -> Vec<(usize, usize)> {
    let sz = sizes(tier);
    let mut v: Vec<(usize, usize)> = sz.iter().flat_map(|&w| sz.iter().map(move |&h| (w, h))).collect();
    let extra: &[(usize, usize)] = match tier {
        Tier::Quick => &[(128, 2), (2, 128), (257, 1), (1, 257), (132, 4), (65, 3), (129, 2), (96, 80), (1280, 54), (65, 64), (100, 41), (37, 116), (140, 32), (140, 120), (322, 56), (322, 208), (140, 472), (2561, 1441)],
        Tier::Thorough => &[(127, 2), (128, 2), (129, 2), (2, 127), (2, 128), (2, 129), (255, 4), (256, 4), (257, 1), (1, 257), (4, 256), (132, 4), (320, 8), (8, 320), (100, 100), (65, 3), (129, 2), (96, 80), (192, 6), (260, 12), (512, 2), (1280, 54), (720, 92), (300, 220), (513, 513), (65, 64), (100, 41), (37, 116), (140, 32), (140, 120), (322, 56), (322, 208), (140, 472), (2561, 1441)],
    };
    v.extend_from_slice(extra);
    v
}

fn meta(k: u8, n: u8, ss: (u8, u8)) -> YuvConfig {
    match k {
        0 => cfg_full(n, false, ss, MC::BT709, TC::BT1886, CP::BT709),
        1 => cfg_full(n, true, ss, MC::BT2020NonConstantLuminance, TC::PerceptualQuantizer, CP::BT2020),
        2 => cfg_full(n, false, ss, MC::YCgCo, TC::HybridLogGamma, CP::P3DCI),
        _ => cfg_full(n, true, ss, MC::ST170M, TC::SRGB, CP::BT470M),
    }
}

thread_local! {
    /// Content of the YUV test frames: 0 = position-coded (every sample differs from its neighbours),
    /// 1 = every row flat (depends on y only), 2 = every column flat, 3 = one solid colour.
    static CONTENT_MODE: std::cell::Cell<u8> = const { std::cell::Cell::new(0) };
}

fn with_content<R>(mode: u8, f: impl FnOnce() -> R) -> R {
    let prev = CONTENT_MODE.with(|m| m.replace(mode));
    let r = f();
    CONTENT_MODE.with(|m| m.set(prev));
    r
}

fn code(plane: usize, x: usize, y: usize, max: u16) -> u16 {
    let (x, y) = match CONTENT_MODE.with(|m| m.get()) {
        1 => (0, y),
        2 => (x, 0),
        3 => (0, 0),
        _ => (x, y),
    };
    // linear in the low coordinate bits (neighbours, rows and columns differ even at 8 bit) plus terms in
    // the higher bits, so that the content is not periodic in x or y with a period of 2^n / 256 / 1024
    // columns or rows: a shift by any such distance within the sizes used changes the sample
    let hi = 59 * (x >> 6) + 97 * (x >> 10) + 83 * (y >> 6) + 113 * (y >> 10);
    let v = match plane {
        0 => x * 37 + y * 101 + 11 + hi,
        1 => x * 53 + y * 29 + 7 + 3 * hi,
        _ => x * 17 + y * 71 + 3 + 5 * hi,
    };
    (v % (max as usize + 1)) as u16
}

fn fcontent(i: usize) -> [f32; 3] {
    [((i * 13 + 5) % 1000) as f32 / 1000.0, ((i * 7919 + 1) % 997) as f32 / 997.0, ((i * 104_729 + 3) % 991) as f32 / 991.0]
}

fn build_yuv<T: Pixel>(w: usize, h: usize, cfg: YuvConfig, pad: (usize, usize), poison: u16) -> Yuv<T> {
    let max = ((1u32 << cfg.bit_depth) - 1) as u16;
    let (sx, sy) = (cfg.subsampling_x as usize, cfg.subsampling_y as usize);
    let frame = Frame {
        planes: [
            plane_new::<T>(w, h, 0, 0, pad.0, pad.1, |x, y| code(0, x, y, max), Some(poison)),
            plane_new::<T>(w >> sx, h >> sy, sx, sy, pad.1, pad.0, |x, y| code(1, x, y, max), Some(poison)),
            plane_new::<T>(w >> sx, h >> sy, sx, sy, pad.0 / 2, pad.1 + 1, |x, y| code(2, x, y, max), Some(poison)),
        ],
    };
    Yuv::new(frame, cfg).expect("well-formed frame")
}

fn bits(d: &[[f32; 3]]) -> Vec<[u32; 3]> {
    d.iter().map(|p| [p[0].to_bits(), p[1].to_bits(), p[2].to_bits()]).collect()
}

#[derive(Clone, Copy, Debug, PartialEq, Eq, Hash)]
pub enum Target {
    Rgb,
    Lin,
    Xyb,
}

fn from_yuv<T: Pixel>(t: Target, y: &Yuv<T>, by_value: bool) -> Result<(Vec<[u32; 3]>, usize, usize), String> {
    guarded(|| -> Result<(Vec<[u32; 3]>, usize, usize), String> {
        let e = |e: yuvxyb::ConversionError| format!("{e:?}");
        Ok(match (t, by_value) {
            (Target::Rgb, false) => { let r = Rgb::try_from(y).map_err(e)?; (bits(r.data()), r.width(), r.height()) }
            (Target::Rgb, true) => { let r = Rgb::try_from(y.clone()).map_err(e)?; (bits(r.data()), r.width(), r.height()) }
            (Target::Lin, false) => { let r = LinearRgb::try_from(y).map_err(e)?; (bits(r.data()), r.width(), r.height()) }
            (Target::Lin, true) => { let r = LinearRgb::try_from(y.clone()).map_err(e)?; (bits(r.data()), r.width(), r.height()) }
            (Target::Xyb, false) => { let r = Xyb::try_from(y).map_err(e)?; (bits(r.data()), r.width(), r.height()) }
            (Target::Xyb, true) => { let r = Xyb::try_from(y.clone()).map_err(e)?; (bits(r.data()), r.width(), r.height()) }
        })
    })?
}

fn planes_eq<T: Pixel>(a: &Yuv<T>, b: &Yuv<T>) -> bool {
    a.config() == b.config() && a.data().iter().zip(b.data().iter()).all(|(p, q)| p == q)
}

#[derive(Clone, Copy, Debug)]
pub struct DecCase {
    pub w: usize,
    pub h: usize,
    pub ss: (u8, u8),
    pub wide: bool,
    pub k: u8,
    /// content mode of the frame (see CONTENT_MODE)
    pub mode: u8,
}
fn dec_json(c: &DecCase) -> Value {
    json!({"kind":"c11dec","w":c.w,"h":c.h,"ss":[c.ss.0,c.ss.1],"u16":c.wide,"meta":c.k,"content":c.mode})
}

fn pads(tier: Tier, w: usize, h: usize) -> Vec<(usize, usize)> {
    let mut v = vec![(1, 1), (17, 17), (32, 0), (0, 32)];
    if tier == Tier::Thorough && w <= 12 && h <= 12 {
        for a in [0usize, 1, 17, 32] {
            for b in [0usize, 1, 17, 32] {
                if !v.contains(&(a, b)) && (a, b) != (0, 0) {
                    v.push((a, b));
                }
            }
        }
    }
    if (w, h) == (4, 4) || (w, h) == (8, 8) {
        for a in 0..=32usize {
            v.push((a, 0));
            v.push((0, a));
        }
    }
    v
}

fn check_decode<T: Pixel>(acc: &mut Acc, idx: u64, tier: Tier, c: &DecCase, memo: &mut HashMap<(u8, u8, bool, Target, [u16; 3]), [u32; 3]>) {
    with_content(c.mode, || check_decode_inner::<T>(acc, idx, tier, c, memo))
}

fn check_decode_inner<T: Pixel>(acc: &mut Acc, idx: u64, tier: Tier, c: &DecCase, memo: &mut HashMap<(u8, u8, bool, Target, [u16; 3]), [u32; 3]>) {
    let n = if c.wide { 10 } else { 8 };
    let cfg = meta(c.k, n, c.ss);
    let max = ((1u32 << n) - 1) as u16;
    let base = build_yuv::<T>(c.w, c.h, cfg, (0, 0), max);
    let keep = base.clone();
    let fail = |acc: &mut Acc, key: String, detail: String| {
        acc.violation(idx, key, format!("{}x{} ss ({},{}) {} meta {}: {detail}", c.w, c.h, c.ss.0, c.ss.1, if c.wide { "u16" } else { "u8" }, c.k), dec_json(c));
    };
    acc.states += 1;
    for t in [Target::Rgb, Target::Lin, Target::Xyb] {
        // the multi-megapixel frame goes to Rgb only: the plane traversal is shared by the three targets
        if c.w * c.h > 1_000_000 && t != Target::Rgb {
            continue;
        }
        acc.transitions += 1;
        let (out, ow, oh) = match from_yuv(t, &base, false) {
            Ok(o) => o,
            Err(e) => {
                fail(acc, format!("conversion-failed target={t:?} {}", panic_site(&e)), e);
                return;
            }
        };
        if ow != c.w || oh != c.h || out.len() != c.w * c.h {
            fail(acc, format!("dims-not-preserved target={t:?}"), format!("output {}x{} with {} pixels", ow, oh, out.len()));
            return;
        }
        if !planes_eq(&base, &keep) {
            fail(acc, format!("borrowed-source-modified target={t:?}"), "the &Yuv source differs from the clone taken before the conversion".into());
            return;
        }
        // pointwise: each output pixel equals the conversion of the 1x1 4:4:4 image of its samples
        let cfg1 = meta(c.k, n, (0, 0));
        for y in 0..c.h {
            for x in 0..c.w {
                let (cx, cy) = (x >> c.ss.0, y >> c.ss.1);
                let tri = [code(0, x, y, max), code(1, cx, cy, max), code(2, cx, cy, max)];
                let want = *memo.entry((c.k, n, c.wide, t, tri)).or_insert_with(|| {
                    acc.transitions += 1;
                    let one = yuv444_row::<T>(&[tri[0]], &[tri[1]], &[tri[2]], cfg1);
                    from_yuv(t, &one, false).map(|o| o.0[0]).unwrap_or([0xDEAD_BEEF; 3])
                });
                let got = out[y * c.w + x];
                if got != want {
                    fail(
                        acc,
                        format!("not-pointwise target={t:?} ss=({},{})", c.ss.0, c.ss.1),
                        format!("output pixel ({x},{y}) = {:?} but the 1x1 image of Y={}, U={}, V={} converts to {:?}", got.map(f32::from_bits), tri[0], tri[1], tri[2], want.map(f32::from_bits)),
                    );
                    return;
                }
            }
        }
        // repeat, by-value, other layouts
        acc.transitions += 2;
        if from_yuv(t, &base, false).ok().map(|o| o.0) != Some(out.clone()) {
            fail(acc, format!("not-repeatable target={t:?}"), "second run differs".into());
            return;
        }
        if from_yuv(t, &base, true).ok().map(|o| o.0) != Some(out.clone()) {
            fail(acc, format!("by-value-differs target={t:?}"), "TryFrom<Yuv> differs from TryFrom<&Yuv>".into());
            return;
        }
        for (pi, pad) in pads(tier, c.w, c.h).into_iter().enumerate() {
            acc.transitions += 1;
            let poison = if pi % 2 == 0 { 0 } else { max / 3 };
            let other = build_yuv::<T>(c.w, c.h, cfg, pad, poison);
            match from_yuv(t, &other, false) {
                Ok(o) if o.0 == out => {}
                Ok(_) => {
                    fail(acc, format!("layout-dependent target={t:?}"), format!("same samples with padding {pad:?} / poison {poison} convert differently"));
                    return;
                }
                Err(e) => {
                    fail(acc, format!("conversion-failed target={t:?} {}", panic_site(&e)), format!("padding {pad:?}: {e}"));
                    return;
                }
            }
        }
        // the luma plane's own decimation fields are layout too: the constructor does not look at
        // them (only the chroma planes' decimation is compared with the subsampling), so a frame whose
        // luma plane says "decimated" - what v_frame's Plane::downsampled() produces - holds the same
        // samples and must decode the same
        for ldec in [(1usize, 1usize), (1, 0)] {
            let mut other = build_yuv::<T>(c.w, c.h, cfg, (1, 1), max / 3);
            let mut planes = [other.data()[0].clone(), other.data()[1].clone(), other.data()[2].clone()];
            planes[0].cfg.xdec = ldec.0;
            planes[0].cfg.ydec = ldec.1;
            match Yuv::<T>::new(Frame { planes }, cfg) {
                Ok(y) => other = y,
                Err(_) => {
                    acc.bucket("frame with a decimated-labelled luma plane rejected by the constructor (nothing to compare)", 1);
                    continue;
                }
            }
            acc.transitions += 1;
            match from_yuv(t, &other, false) {
                Ok(o) if o.0 == out => {}
                Ok(_) => {
                    fail(acc, format!("layout-dependent target={t:?}"), format!("same samples in a luma plane labelled with decimation {ldec:?} convert differently"));
                    return;
                }
                Err(e) => {
                    fail(acc, format!("conversion-failed target={t:?} {}", panic_site(&e)), format!("luma decimation label {ldec:?}: {e}"));
                    return;
                }
            }
        }
        acc.bucket(&format!("decode to {t:?}: pointwise, repeatable, layout-independent, source untouched"), 1);
    }
}

// ---- float <-> float ---------------------------------------------------------------------------

const FOPS: [&str; 8] = ["RgbToLin", "LinToRgb", "LinToXyb", "XybToLin", "LinToHsl", "HslToLin", "RgbToXyb", "XybToRgb"];

enum FSrc {
    Rgb(Rgb),
    Lin(LinearRgb),
    Xyb(Xyb),
    Hsl(Hsl),
}

fn fsrc(op: &str, data: Vec<[f32; 3]>, w: usize, h: usize) -> FSrc {
    let (t, p) = (TC::HybridLogGamma, CP::P3DCI);
    match op {
        "RgbToLin" | "RgbToXyb" => FSrc::Rgb(Rgb::new(data, w, h, t, p).unwrap()),
        "LinToRgb" | "LinToXyb" | "LinToHsl" => FSrc::Lin(LinearRgb::new(data, w, h).unwrap()),
        "HslToLin" => FSrc::Hsl(Hsl::new(data, w, h).unwrap()),
        _ => FSrc::Xyb(Xyb::new(data, w, h).unwrap()),
    }
}

fn fconv_src(op: &str, src: FSrc) -> Result<(Vec<[u32; 3]>, usize, usize), yuvxyb::ConversionError> {
    let (t, p) = (TC::HybridLogGamma, CP::P3DCI);
    Ok(match (op, src) {
        ("RgbToLin", FSrc::Rgb(s)) => { let r = LinearRgb::try_from(s)?; (bits(r.data()), r.width(), r.height()) }
        ("LinToRgb", FSrc::Lin(s)) => { let r = Rgb::try_from((s, t, p))?; (bits(r.data()), r.width(), r.height()) }
        ("LinToXyb", FSrc::Lin(s)) => { let r = Xyb::from(s); (bits(r.data()), r.width(), r.height()) }
        ("XybToLin", FSrc::Xyb(s)) => { let r = LinearRgb::from(s); (bits(r.data()), r.width(), r.height()) }
        ("LinToHsl", FSrc::Lin(s)) => { let r = Hsl::from(s); (bits(r.data()), r.width(), r.height()) }
        ("HslToLin", FSrc::Hsl(s)) => { let r = LinearRgb::from(s); (bits(r.data()), r.width(), r.height()) }
        ("RgbToXyb", FSrc::Rgb(s)) => { let r = Xyb::try_from(s)?; (bits(r.data()), r.width(), r.height()) }
        (_, FSrc::Xyb(s)) => { let r = Rgb::try_from((s, t, p))?; (bits(r.data()), r.width(), r.height()) }
        _ => unreachable!("source kind does not match the conversion"),
    })
}

fn fconv(op: &str, data: Vec<[f32; 3]>, w: usize, h: usize) -> Result<(Vec<[u32; 3]>, usize, usize), String> {
    guarded(|| fconv_src(op, fsrc(op, data, w, h)).map_err(|e| format!("{e:?}")))?
}

/// The same conversion of an image that was constructed with `init` as its content and then
/// overwritten in place, through the public `data_mut()`, with `data`.
fn fconv_via_data_mut(op: &str, init: Vec<[f32; 3]>, data: &[[f32; 3]], w: usize, h: usize) -> Result<(Vec<[u32; 3]>, usize, usize), String> {
    guarded(|| {
        let mut src = fsrc(op, init, w, h);
        match &mut src {
            FSrc::Rgb(s) => s.data_mut().copy_from_slice(data),
            FSrc::Lin(s) => s.data_mut().copy_from_slice(data),
            FSrc::Xyb(s) => s.data_mut().copy_from_slice(data),
            FSrc::Hsl(s) => s.data_mut().copy_from_slice(data),
        }
        fconv_src(op, src).map_err(|e| format!("{e:?}"))
    })?
}

fn check_float(acc: &mut Acc, idx: u64, w: usize, h: usize, op: &str) {
    let case = || json!({"kind":"c11float","w":w,"h":h,"op":op});
    let data: Vec<[f32; 3]> = (0..w * h).map(|i| { let p = fcontent(i); if op == "HslToLin" { [p[0] * 359.0, p[1], p[2]] } else { p } }).collect();
    acc.states += 1;
    acc.transitions += 2 + (w * h) as u64;
    let (out, ow, oh) = match fconv(op, data.clone(), w, h) {
        Ok(o) => o,
        Err(e) => {
            acc.violation(idx, format!("conversion-failed op={op} {}", panic_site(&e)), e, case());
            return;
        }
    };
    if ow != w || oh != h || out.len() != w * h {
        acc.violation(idx, format!("dims-not-preserved op={op}"), format!("{w}x{h} -> {ow}x{oh} with {} pixels", out.len()), case());
        return;
    }
    for i in 0..w * h {
        let one = fconv(op, vec![data[i]], 1, 1).map(|o| o.0[0]).unwrap_or([0xDEAD_BEEF; 3]);
        if one != out[i] {
            acc.violation(idx, format!("not-pointwise op={op}"), format!("{w}x{h}: output pixel {i} = {:?}, the 1x1 image of input pixel {i} converts to {:?}", out[i].map(f32::from_bits), one.map(f32::from_bits)), case());
            return;
        }
    }
    if fconv(op, data.clone(), w, h).ok().map(|o| o.0) != Some(out.clone()) {
        acc.violation(idx, format!("not-repeatable op={op}"), format!("{w}x{h}: second run differs"), case());
        return;
    }
    // pointwise whatever the neighbours are: replace every fifth pixel by an out-of-range / special
    // one; all other outputs must stay bit-identical, the replaced ones equal their 1x1 conversion
    if w * h >= 3 {
        let specials: [[f32; 3]; 4] = [[-0.3, 1.7, 2.5], [1e30, -1e30, 0.0], [f32::NAN, 0.5, f32::INFINITY], [-0.0, 0.0, 1e-40]];
        let mut data2 = data.clone();
        for i in (2..w * h).step_by(5) {
            data2[i] = specials[(i / 5) % 4];
        }
        acc.transitions += 1;
        match fconv(op, data2.clone(), w, h) {
            Ok((o2, _, _)) => {
                for i in 0..w * h {
                    let want = if i >= 2 && (i - 2) % 5 == 0 { fconv(op, vec![data2[i]], 1, 1).map(|o| o.0[0]).unwrap_or([0xDEAD_BEEF; 3]) } else { out[i] };
                    if o2[i] != want {
                        acc.violation(
                            idx,
                            format!("not-pointwise op={op} (output depends on neighbouring pixels)"),
                            format!("{w}x{h}: with out-of-range / special pixels at every fifth position, output pixel {i} = {:?} instead of {:?}", o2[i].map(f32::from_bits), want.map(f32::from_bits)),
                            case(),
                        );
                        return;
                    }
                }
            }
            Err(e) => {
                acc.violation(idx, format!("conversion-failed op={op} {}", panic_site(&e)), format!("{w}x{h} with special neighbours: {e}"), case());
                return;
            }
        }
    }
    // an image is its current content: one that was constructed with other content and then
    // overwritten through data_mut() must convert exactly like one constructed with that content
    // (anything a type remembers about its pixels at construction time would show here). Initial
    // contents differ from the final one in sign, range, finiteness and greyness.
    if w * h >= 3 {
        let mut data2 = data.clone();
        let specials: [[f32; 3]; 4] = [[-0.3, 1.7, 2.5], [1e30, -1e30, 0.0], [f32::NAN, 0.5, f32::INFINITY], [-0.0, 0.0, 1e-40]];
        for i in (2..w * h).step_by(5) {
            data2[i] = specials[(i / 5) % 4];
        }
        let want2 = fconv(op, data2.clone(), w, h).ok().map(|o| o.0);
        let inits: [(&str, Vec<[f32; 3]>, &Vec<[f32; 3]>, Option<Vec<[u32; 3]>>); 5] = [
            ("all zero", vec![[0.0; 3]; w * h], &data, Some(out.clone())),
            ("all mid-grey", vec![[0.5; 3]; w * h], &data, Some(out.clone())),
            ("all NaN", vec![[f32::NAN; 3]; w * h], &data, Some(out.clone())),
            ("in-range content, then out-of-range / special pixels poked in", data.clone(), &data2, want2.clone()),
            ("content with out-of-range / special pixels, then in-range content poked in", data2.clone(), &data, Some(out.clone())),
        ];
        for (what, init, fin, want) in inits {
            acc.transitions += 1;
            let got = fconv_via_data_mut(op, init, fin, w, h).ok().map(|o| o.0);
            if got != want {
                let i = match (&got, &want) {
                    (Some(g), Some(wv)) => (0..w * h).find(|&i| g[i] != wv[i]),
                    _ => None,
                };
                acc.violation(
                    idx,
                    format!("depends-on-content-at-construction op={op}"),
                    format!("{w}x{h}: an image constructed as '{what}' and overwritten through data_mut() converts differently from one constructed with the final content{}", i.map(|i| format!(" (first differing pixel {i}: {:?} vs {:?})", got.as_ref().unwrap()[i].map(f32::from_bits), want.as_ref().unwrap()[i].map(f32::from_bits))).unwrap_or_default()),
                    case(),
                );
                return;
            }
        }
    }
    acc.bucket("float conversion: pointwise, order-preserving, repeatable", 1);
}

/// Every pixel count: an image of `len` pixels (as one row and as one column) whose content cycles
/// through 64 pixels must convert, pixel for pixel, like those 64 pixels converted alone. Blocked,
/// banded and unrolled loops meet every remainder of every block size up to the sweep's end.
const SWEEP_END: usize = 8192;

fn float_length_sweep(acc: &mut Acc, idx: u64, op: &str, lo: usize, hi: usize) {
    let pal: Vec<[f32; 3]> = (0..64).map(|i| { let p = fcontent(3 * i + 1); if op == "HslToLin" { [p[0] * 359.0, p[1], p[2]] } else { p } }).collect();
    let want: Vec<[u32; 3]> = pal.iter().map(|p| fconv(op, vec![*p], 1, 1).map(|o| o.0[0]).unwrap_or([0xDEAD_BEEF; 3])).collect();
    for len in lo..hi {
        for (w, h) in [(len, 1usize), (1usize, len)] {
            if len == 1 && h == 1 && w == 1 && (w, h) == (1, len) && w != len {
                continue;
            }
            acc.transitions += 1;
            let data: Vec<[f32; 3]> = (0..len).map(|i| pal[i % 64]).collect();
            match fconv(op, data, w, h) {
                Ok((out, ow, oh)) => {
                    let bad = if ow != w || oh != h || out.len() != len { Some(usize::MAX) } else { (0..len).find(|&i| out[i] != want[i % 64]) };
                    if let Some(i) = bad {
                        acc.violation(
                            idx,
                            format!("not-pointwise op={op} (depends on the pixel count)"),
                            if i == usize::MAX { format!("{w}x{h}: dimensions or length changed ({ow}x{oh}, {} pixels)", out.len()) } else { format!("{w}x{h}: output pixel {i} = {:?}, the same pixel converted alone gives {:?}", out[i].map(f32::from_bits), want[i % 64].map(f32::from_bits)) },
                            json!({"kind":"c11floatlen","op":op,"len":len}),
                        );
                        return;
                    }
                }
                Err(e) => {
                    acc.violation(idx, format!("conversion-failed op={op} {}", panic_site(&e)), format!("{w}x{h}: {e}"), json!({"kind":"c11floatlen","op":op,"len":len}));
                    return;
                }
            }
        }
    }
    acc.states += (hi - lo) as u64;
    acc.bucket("float conversion: every pixel count of the sweep converts pointwise", (hi - lo) as u64);
}

// ---- provenance independence --------------------------------------------------------------------
//
// An image is its content and labels, however it came about: the result of a conversion must convert
// on exactly like an image constructed from the same data (a flag a conversion leaves in its result -
// "already clamped", "known non-negative" - would show here).

#[derive(Clone)]
enum Img {
    Rgb(Rgb),
    Lin(LinearRgb),
    Xyb(Xyb),
    Hsl(Hsl),
}

impl Img {
    fn rebuilt(&self) -> Img {
        match self {
            Img::Rgb(i) => Img::Rgb(Rgb::new(i.data().to_vec(), i.width(), i.height(), i.transfer(), i.primaries()).unwrap()),
            Img::Lin(i) => Img::Lin(LinearRgb::new(i.data().to_vec(), i.width(), i.height()).unwrap()),
            Img::Xyb(i) => Img::Xyb(Xyb::new(i.data().to_vec(), i.width(), i.height()).unwrap()),
            Img::Hsl(i) => Img::Hsl(Hsl::new(i.data().to_vec(), i.width(), i.height()).unwrap()),
        }
    }
    fn view(&self) -> (Vec<[u32; 3]>, usize, usize) {
        match self {
            Img::Rgb(i) => (bits(i.data()), i.width(), i.height()),
            Img::Lin(i) => (bits(i.data()), i.width(), i.height()),
            Img::Xyb(i) => (bits(i.data()), i.width(), i.height()),
            Img::Hsl(i) => (bits(i.data()), i.width(), i.height()),
        }
    }
    fn kind(&self) -> &'static str {
        match self {
            Img::Rgb(_) => "Rgb",
            Img::Lin(_) => "LinearRgb",
            Img::Xyb(_) => "Xyb",
            Img::Hsl(_) => "Hsl",
        }
    }
    /// Every conversion the public API offers from this kind of image (by value).
    fn convert(self, to: &str) -> Option<Result<Img, yuvxyb::ConversionError>> {
        let (t, p) = (TC::BT470BG, CP::BT2020);
        Some(match (self, to) {
            (Img::Rgb(i), "LinearRgb") => LinearRgb::try_from(i).map(Img::Lin),
            (Img::Rgb(i), "Xyb") => Xyb::try_from(i).map(Img::Xyb),
            (Img::Lin(i), "Rgb") => Rgb::try_from((i, t, p)).map(Img::Rgb),
            (Img::Lin(i), "Xyb") => Ok(Img::Xyb(Xyb::from(i))),
            (Img::Lin(i), "Hsl") => Ok(Img::Hsl(Hsl::from(i))),
            (Img::Xyb(i), "LinearRgb") => Ok(Img::Lin(LinearRgb::from(i))),
            (Img::Xyb(i), "Rgb") => Rgb::try_from((i, t, p)).map(Img::Rgb),
            (Img::Hsl(i), "LinearRgb") => Ok(Img::Lin(LinearRgb::from(i))),
            _ => return None,
        })
    }
}

const KINDS: [&str; 4] = ["Rgb", "LinearRgb", "Xyb", "Hsl"];

fn check_provenance(acc: &mut Acc, idx: u64) {
    // content: in-range, negative, above one, special - so that a remembered predicate has something to be wrong about
    let contents: [Vec<[f32; 3]>; 3] = [
        (0..12).map(fcontent).collect(),
        (0..12).map(|i| { let p = fcontent(i); [p[0] - 0.6, p[1] * 1.8, p[2] - 0.3] }).collect(),
        (0..12).map(|i| { let p = fcontent(i); if i % 4 == 1 { [f32::NAN, -p[1], f32::INFINITY] } else { [p[0] * 400.0, p[1], p[2]] } }).collect(),
    ];
    for (ci, data) in contents.iter().enumerate() {
        for (w, h) in [(4usize, 3usize), (12, 1)] {
            let starts = [
                Img::Rgb(Rgb::new(data.clone(), w, h, TC::SRGB, CP::BT709).unwrap()),
                Img::Lin(LinearRgb::new(data.clone(), w, h).unwrap()),
                Img::Xyb(Xyb::new(data.clone(), w, h).unwrap()),
                Img::Hsl(Hsl::new(data.clone(), w, h).unwrap()),
            ];
            for start in starts {
                for mid in KINDS {
                    let case = || json!({"kind":"c11prov"});
                    let Ok(Some(Ok(m))) = guarded(|| start.clone().convert(mid)) else { continue };
                    for dst in KINDS {
                        let r = guarded(|| (m.clone().convert(dst).map(|r| r.map(|i| i.view()).map_err(|e| format!("{e:?}"))), m.rebuilt().convert(dst).map(|r| r.map(|i| i.view()).map_err(|e| format!("{e:?}")))));
                        acc.transitions += 2;
                        match r {
                            Ok((a, b)) if a == b => {
                                if a.is_some() {
                                    acc.bucket("provenance: a conversion's result converts on like an image constructed from its data", 1);
                                }
                            }
                            Ok(_) => {
                                acc.violation(idx, format!("depends-on-provenance conv={}->{}", m.kind(), dst), format!("content {ci}, {w}x{h}: the {} image returned by {} -> {} converts to {dst} differently from a {} image constructed from the same data", m.kind(), start.kind(), m.kind(), m.kind()), case());
                                return;
                            }
                            Err(p) => {
                                acc.violation(idx, format!("conversion-failed chain {}", panic_site(&p)), format!("{} -> {} -> {dst}: {p}", start.kind(), m.kind()), case());
                                return;
                            }
                        }
                    }
                }
            }
        }
    }
    acc.states += 1;
}

// ---- encode to (subsampled) YUV -----------------------------------------------------------------

#[derive(Clone, Copy, Debug)]
pub struct EncCase {
    pub w: usize,
    pub h: usize,
    pub ss: (u8, u8),
    pub wide: bool,
    pub k: u8,
    pub src: u8,
}
fn enc_json(c: &EncCase) -> Value {
    json!({"kind":"c11enc","w":c.w,"h":c.h,"ss":[c.ss.0,c.ss.1],"u16":c.wide,"meta":c.k,"src":c.src})
}

fn encode<T: Pixel>(src: u8, data: &[[f32; 3]], w: usize, h: usize, cfg: YuvConfig) -> Result<Yuv<T>, String> {
    guarded(|| -> Result<Yuv<T>, String> {
        let e = |e: yuvxyb::ConversionError| format!("{e:?}");
        match src {
            0 => {
                let rgb = Rgb::new(data.to_vec(), w, h, cfg.transfer_characteristics, cfg.color_primaries).unwrap();
                let keep = rgb.clone();
                let y = Yuv::<T>::try_from((&rgb, cfg)).map_err(e)?;
                if bits(rgb.data()) != bits(keep.data()) || rgb.width() != keep.width() || rgb.height() != keep.height() || rgb.transfer() != keep.transfer() || rgb.primaries() != keep.primaries() {
                    return Err("borrowed &Rgb source was modified".into());
                }
                Ok(y)
            }
            1 => Yuv::<T>::try_from((Rgb::new(data.to_vec(), w, h, cfg.transfer_characteristics, cfg.color_primaries).unwrap(), cfg)).map_err(e),
            2 => Yuv::<T>::try_from((LinearRgb::new(data.to_vec(), w, h).unwrap(), cfg)).map_err(e),
            _ => Yuv::<T>::try_from((Xyb::from(LinearRgb::new(data.to_vec(), w, h).unwrap()), cfg)).map_err(e),
        }
    })?
}

fn check_encode<T: Pixel>(acc: &mut Acc, idx: u64, c: &EncCase) {
    let data: Vec<[f32; 3]> = (0..c.w * c.h).map(fcontent).collect();
    let before = acc.viols.len();
    check_encode_with::<T>(acc, idx, c, &data);
    if acc.viols.len() > before || c.w * c.h > 4096 {
        return;
    }
    // the same relations on saturated content: the corners of the RGB cube and two out-of-range
    // pixels, placed so that every corner is the top-left, the last-row and an inner pixel of some
    // chroma block (range clamps and end-of-range shortcuts of the chroma path see their extremes)
    const CORNERS: [[f32; 3]; 10] = [
        [0.0, 0.0, 0.0], [1.0, 0.0, 0.0], [0.0, 1.0, 0.0], [0.0, 0.0, 1.0], [1.0, 1.0, 0.0], [0.0, 1.0, 1.0], [1.0, 0.0, 1.0], [1.0, 1.0, 1.0],
        [1.5, -0.5, 0.5], [-0.5, 1.5, 1.0],
    ];
    let (bw, bh) = (1usize << c.ss.0, 1usize << c.ss.1);
    let data2: Vec<[f32; 3]> = (0..c.w * c.h)
        .map(|i| {
            let (x, y) = (i % c.w, i / c.w);
            CORNERS[(x / bw + 3 * (y / bh) + 5 * (x % bw) + 7 * (y % bh)) % 10]
        })
        .collect();
    check_encode_with::<T>(acc, idx, c, &data2);
}

fn check_encode_with<T: Pixel>(acc: &mut Acc, idx: u64, c: &EncCase, data: &[[f32; 3]]) {
    let n = if c.wide { 10 } else { 8 };
    let cfg = meta(c.k, n, c.ss);
    let cfg444 = meta(c.k, n, (0, 0));
    let fail = |acc: &mut Acc, key: String, detail: String| {
        acc.violation(idx, key, format!("{}x{} ss ({},{}) {} meta {} src {}: {detail}", c.w, c.h, c.ss.0, c.ss.1, if c.wide { "u16" } else { "u8" }, c.k, c.src), enc_json(c));
    };
    acc.states += 1;
    acc.transitions += 3;
    let (sub, full) = match (encode::<T>(c.src, &data, c.w, c.h, cfg), encode::<T>(c.src, &data, c.w, c.h, cfg444)) {
        (Ok(a), Ok(b)) => (a, b),
        (a, b) => {
            let e = a.err().or(b.err()).unwrap();
            fail(acc, format!("encode-failed {}", panic_site(&e)), e);
            return;
        }
    };
    let (cw, ch) = (c.w >> c.ss.0, c.h >> c.ss.1);
    let d = sub.data();
    if sub.width() != c.w || sub.height() != c.h || sub.config() != cfg || d[0].cfg.width != c.w || d[0].cfg.height != c.h || d[1].cfg.width != cw || d[1].cfg.height != ch || d[2].cfg.width != cw || d[2].cfg.height != ch {
        fail(acc, "encode-dims".into(), format!("got {}x{}, planes {}x{} / {}x{} / {}x{}", sub.width(), sub.height(), d[0].cfg.width, d[0].cfg.height, d[1].cfg.width, d[1].cfg.height, d[2].cfg.width, d[2].cfg.height));
        return;
    }
    if plane_samples(&d[0]) != plane_samples(&full.data()[0]) {
        fail(acc, format!("luma-differs-from-444 ss=({},{})", c.ss.0, c.ss.1), "luma plane of the subsampled encode differs from the 4:4:4 encode".into());
        return;
    }
    for p in 1..3 {
        let f = &full.data()[p];
        for by in 0..ch {
            for bx in 0..cw {
                let got = u16::cast_from(d[p].p(bx, by));
                let mut ok = false;
                for y in (by << c.ss.1)..((by + 1) << c.ss.1) {
                    for x in (bx << c.ss.0)..((bx + 1) << c.ss.0) {
                        ok |= u16::cast_from(f.p(x, y)) == got;
                    }
                }
                if !ok {
                    fail(acc, format!("chroma-not-from-own-block ss=({},{}) plane={p}", c.ss.0, c.ss.1), format!("chroma sample ({bx},{by}) = {got} is not the 4:4:4 chroma of any pixel of its block"));
                    return;
                }
            }
        }
    }
    match encode::<T>(c.src, &data, c.w, c.h, cfg) {
        Ok(again) if planes_eq(&again, &sub) => {}
        _ => {
            fail(acc, "encode-not-repeatable".into(), "second run differs".into());
            return;
        }
    }
    acc.bucket("encode: luma = 4:4:4 luma, chroma from own block, plane sizes right, repeatable", 1);
}

use yuvxyb::CastFromPrimitive;

// ---- history independence -----------------------------------------------------------------------
//
// "Repeating a conversion gives bit-identical output" and "output pixel i depends only on input
// pixel i" also mean: a conversion's result does not depend on which conversions ran before it
// (the library has no caches, scratch buffers or other hidden state). Explored as all call
// histories of length 2 and 3 of the form [a, b] and [a, b, a] over an operation alphabet, each
// history executed on a fresh thread (so thread-local state starts empty) and every result compared
// with the result the same operation gives as the first call of a fresh thread.

use super::c14::{Conv, Meta, PAIRS};

#[derive(Clone, Copy, Debug)]
pub struct HOp {
    conv: Conv,
    meta: Meta,
    variant: u8,
    /// 0: 8 bit in u8 storage resp. (meta.wide) 10 bit in u16 storage; otherwise the bit depth itself,
    /// stored as u16 when above 8 or when meta.wide is set
    depth: u8,
}

fn hop_json(o: &HOp) -> Value {
    json!({"conv": format!("{:?}", o.conv), "meta": o.meta.json(), "variant": o.variant, "depth": o.depth})
}
fn hop_from(v: &Value) -> HOp {
    HOp { conv: super::c14::conv_from(v["conv"].as_str().unwrap()), meta: Meta::from_json(&v["meta"]), variant: v["variant"].as_u64().unwrap() as u8, depth: v["depth"].as_u64().unwrap_or(0) as u8 }
}

fn hist_run_t<T: Pixel>(o: &HOp) -> Result<Vec<u32>, String> {
    // variants 3 and 4 are 4:2:0 images with one resp. two chroma rows of the same width
    let (w, h, ss) = match o.variant {
        0 => (2usize, 2usize, (0u8, 0u8)),
        1 => (3, 1, (0, 0)),
        2 => (4, 4, (0, 0)),
        3 => (4, 2, (1, 1)),
        4 => (4, 4, (1, 1)),
        // large frames: more pixels than a 16-bit sample has code values (65,539 is prime)
        5 => (65_539, 1, (0, 0)),
        7 => (16, 8, (0, 0)),
        _ => (262, 252, (1, 1)),
    };
    let m = &o.meta;
    let n = if o.depth != 0 { o.depth } else if m.wide { 10 } else { 8 };
    let cfg = cfg_full(n, m.full, ss, m.m, m.t, m.p);
    let (sx, sy) = (ss.0 as usize, ss.1 as usize);
    let fdata: Vec<[f32; 3]> = (0..w * h).map(|i| fcontent(i + 17 * o.variant as usize)).collect();
    let max = ((1u32 << n) - 1) as u16;
    let e = |e: yuvxyb::ConversionError| format!("{e:?}");
    let fb = |d: &[[f32; 3]]| -> Vec<u32> { d.iter().flat_map(|p| p.iter().map(|c| c.to_bits())).collect() };
    let yb = |y: &Yuv<T>| -> Vec<u32> { y.data().iter().flat_map(|p| plane_samples(p).into_iter().map(u32::from)).collect() };
    let yuv = || -> Yuv<T> {
        let f = Frame {
            planes: [
                plane_new::<T>(w, h, 0, 0, 0, 0, |x, y| code(0, x + o.variant as usize, y, max), None),
                plane_new::<T>(w >> sx, h >> sy, sx, sy, 0, 0, |x, y| code(1, x + o.variant as usize, y, max), None),
                plane_new::<T>(w >> sx, h >> sy, sx, sy, 0, 0, |x, y| code(2, x + o.variant as usize, y, max), None),
            ],
        };
        Yuv::new(f, cfg).expect("well-formed")
    };
    guarded(|| -> Result<Vec<u32>, String> {
        Ok(match o.conv {
            Conv::YuvToRgb => fb(Rgb::try_from(&yuv()).map_err(e)?.data()),
            Conv::RgbToYuv => yb(&Yuv::<T>::try_from((&Rgb::new(fdata.clone(), w, h, m.t, m.p).unwrap(), cfg)).map_err(e)?),
            Conv::RgbToLin => fb(LinearRgb::try_from(Rgb::new(fdata.clone(), w, h, m.t, m.p).unwrap()).map_err(e)?.data()),
            Conv::LinToRgb => fb(Rgb::try_from((LinearRgb::new(fdata.clone(), w, h).unwrap(), m.t, m.p)).map_err(e)?.data()),
            Conv::YuvToLin => fb(LinearRgb::try_from(&yuv()).map_err(e)?.data()),
            Conv::LinToYuv => yb(&Yuv::<T>::try_from((LinearRgb::new(fdata.clone(), w, h).unwrap(), cfg)).map_err(e)?),
            Conv::YuvToXyb => fb(Xyb::try_from(&yuv()).map_err(e)?.data()),
            Conv::XybToYuv => yb(&Yuv::<T>::try_from((Xyb::new(fdata.clone(), w, h).unwrap(), cfg)).map_err(e)?),
            Conv::RgbToXyb => fb(Xyb::try_from(Rgb::new(fdata.clone(), w, h, m.t, m.p).unwrap()).map_err(e)?.data()),
            Conv::XybToRgb => fb(Rgb::try_from((Xyb::new(fdata.clone(), w, h).unwrap(), m.t, m.p)).map_err(e)?.data()),
        })
    })?
}
fn hist_run(o: &HOp) -> Result<Vec<u32>, String> {
    if o.meta.wide || o.depth > 8 {
        hist_run_t::<u16>(o)
    } else {
        hist_run_t::<u8>(o)
    }
}

/// Operation alphabet: every conversion x a metadata set in which, from each of four base
/// triples, every single field takes all of its values (so any cache keyed on a subset of the
/// fields meets two operations that agree on the key and differ elsewhere) x image variants.
fn hist_ops(tier: Tier) -> Vec<HOp> {
    use crate::refmodel::{ALL_MATRICES, ALL_PRIMARIES, ALL_TRANSFERS};
    let bases = [
        (MC::BT709, CP::BT709, TC::BT1886),
        (MC::Identity, CP::BT470BG, TC::SRGB),
        (MC::ICtCp, CP::BT2020, TC::PerceptualQuantizer),
        (MC::YCgCo, CP::P3DCI, TC::HybridLogGamma),
    ];
    let mut metas: Vec<(MC, CP, TC, bool, bool)> = vec![];
    let nb = tier.pick(2, 4);
    for &(m, p, t) in bases.iter().take(nb) {
        for &m2 in ALL_MATRICES.iter().filter(|x| **x != MC::Unspecified && **x != MC::Reserved) {
            metas.push((m2, p, t, false, false));
        }
        // unsupported values stay in: a rejected call is a call too (an error path that leaves a
        // half-updated cache behind shows in the next successful call)
        for &p2 in ALL_PRIMARIES.iter().filter(|x| **x != CP::Unspecified) {
            metas.push((m, p2, t, false, false));
        }
        for &t2 in ALL_TRANSFERS.iter().filter(|x| **x != TC::Unspecified) {
            metas.push((m, p, t2, false, false));
        }
        metas.push((m, p, t, true, false));
        metas.push((m, p, t, false, true));
        metas.push((m, p, t, true, true));
    }
    let _ = ALL_TRANSFERS;
    metas.sort_by_key(|x| format!("{x:?}"));
    metas.dedup();
    let mut ops = vec![];
    let variants: &[u8] = match tier {
        Tier::Quick => &[0, 3, 4],
        Tier::Thorough => &[0, 1, 2, 3, 4],
    };
    for (m, p, t, wide, full) in metas {
        for (a, b, _) in PAIRS {
            for conv in [a, b] {
                for &variant in variants {
                    ops.push(HOp { conv, meta: Meta { m, p, t, wide, full, ss: (0, 0) }, variant, depth: 0 });
                }
            }
        }
    }
    ops
}

/// Large-frame alphabet: state that a conversion only builds or consults for frames with more
/// pixels than code values (tables, bands, pools) is invisible to the small-image histories. Every
/// conversion x every storage/depth class {8 in u8, 8 in u16, 10, 12, 16} x {limited, full} (float-only
/// conversions once per metadata set) on a frame of 65,539 pixels (thorough: also 262x252 4:2:0 and a
/// second metadata set), and the same operations on a 2x2 frame, so that large-then-small and
/// small-then-large pairs are histories too.
fn big_ops(tier: Tier) -> Vec<HOp> {
    let metas: &[(MC, CP, TC)] = match tier {
        Tier::Quick => &[(MC::BT709, CP::BT709, TC::BT1886)],
        Tier::Thorough => &[(MC::BT709, CP::BT709, TC::BT1886), (MC::BT2020NonConstantLuminance, CP::BT2020, TC::PerceptualQuantizer)],
    };
    let variants: &[u8] = match tier {
        Tier::Quick => &[5, 0],
        Tier::Thorough => &[5, 6, 0],
    };
    let mut ops = vec![];
    for &(m, p, t) in metas {
        for (a, b, _) in PAIRS {
            for conv in [a, b] {
                let yuv = matches!(conv, Conv::YuvToRgb | Conv::RgbToYuv | Conv::YuvToLin | Conv::LinToYuv | Conv::YuvToXyb | Conv::XybToYuv);
                for &variant in variants {
                    if !yuv {
                        if variant != 6 {
                            ops.push(HOp { conv, meta: Meta { m, p, t, wide: false, full: false, ss: (0, 0) }, variant, depth: 0 });
                        }
                        continue;
                    }
                    for (depth, wide) in [(8u8, false), (8, true), (10, true), (12, true), (16, true)] {
                        for full in [false, true] {
                            ops.push(HOp { conv, meta: Meta { m, p, t, wide, full, ss: (0, 0) }, variant, depth });
                        }
                    }
                }
            }
        }
    }
    ops
}

fn fresh<R: Send + 'static>(f: impl FnOnce() -> R + Send + 'static) -> R {
    std::thread::spawn(f).join().expect("history thread")
}

/// Run a history on a fresh thread; returns the result of every call.
fn run_history(ops: Vec<HOp>) -> Vec<Result<Vec<u32>, String>> {
    fresh(move || {
        crate::explore::install_panic_hook_thread();
        ops.iter().map(hist_run).collect()
    })
}

fn check_histories(rep: &mut Report, tier: Tier, base_idx: u64) {
    check_histories_over(rep, hist_ops(tier), "", base_idx);
    check_histories_over(rep, big_ops(tier), "large frames: ", base_idx);
}

fn check_histories_over(rep: &mut Report, ops: Vec<HOp>, label: &'static str, base_idx: u64) {
    let n = ops.len();
    // reference: each operation as the first call of a fresh thread
    let refs: Vec<Result<Vec<u32>, String>> = {
        let acc = std::sync::Mutex::new(vec![None; n]);
        par_chunks(n as u64, 64, |_, lo, hi| {
            for i in lo..hi {
                let r = run_history(vec![ops[i as usize]]).pop().unwrap();
                acc.lock().unwrap()[i as usize] = Some(r);
            }
        });
        acc.into_inner().unwrap().into_iter().map(|x| x.unwrap()).collect()
    };
    let refs = std::sync::Arc::new(refs);
    let ops = std::sync::Arc::new(ops);
    let acc = par_chunks(n as u64, 1, |acc, lo, _| {
        let a = lo as usize;
        let ops2 = ops.clone();
        let refs2 = refs.clone();
        // one fresh thread per first operation a: [a, b1, a, b2, a, ...]
        let bad: Option<(Vec<usize>, String)> = fresh(move || {
            crate::explore::install_panic_hook_thread();
            let mut trace = vec![a];
            if hist_run(&ops2[a]) != refs2[a] {
                return Some((trace, "the same first call gives different results on two fresh threads".to_string()));
            }
            for b in 0..ops2.len() {
                trace.push(b);
                if hist_run(&ops2[b]) != refs2[b] {
                    return Some((trace, format!("{:?} after {:?}", ops2[b], ops2[a])));
                }
                trace.push(a);
                if hist_run(&ops2[a]) != refs2[a] {
                    return Some((trace, format!("{:?} again after {:?}", ops2[a], ops2[b])));
                }
            }
            None
        });
        acc.states += 2 * n as u64;
        acc.transitions += 2 * n as u64 + 1;
        match bad {
            None => acc.bucket(&format!("{label}histories [a,b] and [a,b,a]: every result equals the fresh-thread result"), 2 * n as u64),
            Some((trace, what)) => {
                // minimise: the last two / three calls alone, else the whole prefix
                let last = *trace.last().unwrap();
                let mut candidates: Vec<Vec<usize>> = vec![];
                if trace.len() >= 2 {
                    candidates.push(trace[trace.len() - 2..].to_vec());
                }
                if trace.len() >= 3 {
                    candidates.push(trace[trace.len() - 3..].to_vec());
                }
                candidates.push(trace.clone());
                let mut chosen = trace.clone();
                for c in candidates {
                    let res = run_history(c.iter().map(|&i| ops[i]).collect());
                    if res.last().unwrap() != &refs[last] {
                        chosen = c;
                        break;
                    }
                }
                acc.violation(
                    base_idx + lo,
                    format!("result-depends-on-call-history conv={:?}", ops[last].conv),
                    format!("{label}a history of {} calls on a fresh thread ends with a result that differs from the same call made first: {what}", chosen.len()),
                    json!({"kind":"c11hist","ops": chosen.iter().map(|&i| hop_json(&ops[i])).collect::<Vec<_>>()}),
                );
            }
        }
    });
    rep.acc.merge(acc);
    rep.acc.sample(json!({"history_alphabet": n, "label": label, "example_op": hop_json(&ops[n / 2])}));
    rep.extra.insert(if label.is_empty() { "history_ops".into() } else { "history_ops_large_frames".to_string() }, json!(n));
}

// ---- process-level histories --------------------------------------------------------------------
//
// Thread-local state is reset by a fresh thread, process-wide state (a `static` cache) is not. The
// same pair-covering walk is therefore repeated in ONE single-threaded child process, and its
// results are compared with references obtained from one fresh *process* per operation.

fn digest_json(r: &Result<Vec<u32>, String>) -> Value {
    match r {
        Ok(v) if v.len() > 4096 => {
            // long results travel between processes as (length, FNV-1a 64) of the exact bit patterns
            let mut h: u64 = 0xcbf2_9ce4_8422_2325;
            for x in v {
                for b in x.to_le_bytes() {
                    h = (h ^ b as u64).wrapping_mul(0x0000_0100_0000_01b3);
                }
            }
            json!({"ok_len": v.len(), "ok_fnv64": format!("{h:016x}")})
        }
        Ok(v) => json!({"ok": v}),
        Err(e) => json!({"err": e}),
    }
}

/// Operations of the process-level walk: the history alphabet restricted to the first image variant.
fn proc_ops(tier: Tier, set: &str) -> Vec<HOp> {
    if set == "big" {
        // the quick large-frame alphabet (one metadata set, 65,539-pixel and 2x2 frames)
        big_ops(Tier::Quick)
    } else {
        hist_ops(tier).into_iter().filter(|o| o.variant == 0).collect()
    }
}

/// `mc histrun <file>`: run the listed operations in order on the main thread of this (fresh)
/// process and print one digest per operation.
pub fn histrun_main(path: &str) {
    let v: Value = serde_json::from_str(&std::fs::read_to_string(path).expect("ops file")).expect("ops json");
    let ops: Vec<HOp> = v.as_array().unwrap().iter().map(hop_from).collect();
    let out: Vec<Value> = ops.iter().map(|o| digest_json(&hist_run(o))).collect();
    println!("{}", Value::Array(out));
}

/// `mc histwalk <tier> <refs file>`: walk [a, b1, a, b2, ...] for every a, single-threaded, and
/// print the first call whose result differs from its fresh-process reference.
pub fn histwalk_main(tier: Tier, refs_path: &str, set: &str) {
    let ops = proc_ops(tier, set);
    let refs: Value = serde_json::from_str(&std::fs::read_to_string(refs_path).expect("refs file")).expect("refs json");
    let refs = refs.as_array().unwrap();
    let mut prev: Option<usize> = None;
    let mut calls = 0u64;
    for a in 0..ops.len() {
        for b in 0..ops.len() {
            for cur in [b, a] {
                calls += 1;
                if digest_json(&hist_run(&ops[cur])) != refs[cur] {
                    println!("{}", json!({"mismatch": true, "prev": prev, "cur": cur, "calls": calls}));
                    return;
                }
                prev = Some(cur);
            }
        }
    }
    println!("{}", json!({"mismatch": false, "calls": calls}));
}

fn child_json(args: &[&str]) -> Option<Value> {
    let exe = std::env::current_exe().ok()?;
    let out = std::process::Command::new(exe).args(args).stderr(std::process::Stdio::null()).output().ok()?;
    if !out.status.success() {
        return None;
    }
    let s = String::from_utf8_lossy(&out.stdout);
    serde_json::from_str(s.lines().last()?).ok()
}

fn scratch_file(name: &str) -> String {
    let dir = std::env::var("MC_SCRATCH").unwrap_or_else(|_| std::env::temp_dir().to_string_lossy().to_string());
    format!("{dir}/mc-{}-{name}", std::process::id())
}

/// One fresh process per operation list.
fn run_in_fresh_process(ops: &[HOp], tag: &str) -> Option<Vec<Value>> {
    let f = scratch_file(&format!("histops-{tag}.json"));
    std::fs::write(&f, Value::Array(ops.iter().map(hop_json).collect()).to_string()).ok()?;
    let r = child_json(&["histrun", &f]);
    let _ = std::fs::remove_file(&f);
    r.and_then(|v| v.as_array().cloned())
}

fn check_histories_process(rep: &mut Report, tier: Tier, base_idx: u64) {
    check_histories_process_set(rep, tier, base_idx, "small");
    if tier == Tier::Thorough {
        check_histories_process_set(rep, tier, base_idx, "big");
    }
}

fn check_histories_process_set(rep: &mut Report, tier: Tier, base_idx: u64, set: &str) {
    let ops = proc_ops(tier, set);
    let n = ops.len();
    // references: one fresh process per operation
    let refs: Vec<Value> = {
        let acc = std::sync::Mutex::new(vec![Value::Null; n]);
        par_chunks(n as u64, 8, |_, lo, hi| {
            for i in lo..hi {
                if let Some(mut r) = run_in_fresh_process(&[ops[i as usize]], &format!("ref{i}")) {
                    acc.lock().unwrap()[i as usize] = r.remove(0);
                }
            }
        });
        acc.into_inner().unwrap()
    };
    if refs.iter().any(|r| r.is_null()) {
        rep.guard("process-level histories: every reference process ran", false);
        return;
    }
    let rf = scratch_file("histrefs.json");
    std::fs::write(&rf, Value::Array(refs.clone()).to_string()).expect("refs file");
    let walk = child_json(&["histwalk", tier.name(), &rf, set]);
    let _ = std::fs::remove_file(&rf);
    let Some(walk) = walk else {
        rep.guard("process-level histories: the walking child ran to completion", false);
        return;
    };
    let calls = walk["calls"].as_u64().unwrap_or(0);
    rep.acc.states += calls;
    rep.acc.transitions += calls + n as u64;
    rep.extra.insert(if set == "big" { "process_history_ops_large_frames".to_string() } else { "process_history_ops".into() }, json!(n));
    if walk["mismatch"] == false {
        rep.acc.bucket(if set == "big" { "large frames: process-level histories (single-threaded walk in one child process): every result equals its fresh-process result" } else { "process-level histories (single-threaded walk in one child process): every result equals its fresh-process result" }, calls);
        return;
    }
    let cur = walk["cur"].as_u64().unwrap() as usize;
    // minimise: does [prev, cur] alone reproduce it in a fresh process? else the walk prefix is the history
    let mut history: Vec<HOp> = vec![];
    if let Some(p) = walk["prev"].as_u64() {
        let pair = [ops[p as usize], ops[cur]];
        if let Some(r) = run_in_fresh_process(&pair, "pair") {
            if r[1] != refs[cur] {
                history = pair.to_vec();
            }
        }
    }
    if history.is_empty() {
        // rebuild the prefix of the walk up to the failing call
        let mut k = 0u64;
        'outer: for a in 0..n {
            for b in 0..n {
                for c in [b, a] {
                    history.push(ops[c]);
                    k += 1;
                    if k == calls {
                        break 'outer;
                    }
                }
            }
        }
    }
    rep.acc.violation(
        base_idx,
        format!("result-depends-on-call-history conv={:?} (process-wide state)", ops[cur].conv),
        format!("in a fresh process, after {} earlier call(s), {:?} gives a result that differs from the same call made first in a fresh process", history.len() - 1, ops[cur]),
        json!({"kind":"c11histproc","ops": history.iter().map(hop_json).collect::<Vec<_>>()}),
    );
}

fn replay_history_process(case: &Value) -> (bool, String) {
    let ops: Vec<HOp> = case["ops"].as_array().unwrap().iter().map(hop_from).collect();
    let last = *ops.last().unwrap();
    let (Some(alone), Some(seq)) = (run_in_fresh_process(&[last], "ralone"), run_in_fresh_process(&ops, "rseq")) else {
        return (false, "could not run the child processes".into());
    };
    if seq.last() != alone.last() {
        (true, format!("result-depends-on-call-history conv={:?} (process-wide state) :: after {} earlier calls in a fresh process the result differs from the same call made first", last.conv, ops.len() - 1))
    } else {
        (false, "history independent".into())
    }
}

fn replay_history(case: &Value) -> (bool, String) {
    let ops: Vec<HOp> = case["ops"].as_array().unwrap().iter().map(hop_from).collect();
    let last = *ops.last().unwrap();
    let reference = run_history(vec![last]).pop().unwrap();
    let got = run_history(ops.clone()).pop().unwrap();
    if got != reference {
        (true, format!("result-depends-on-call-history conv={:?} :: after {} earlier calls the result differs from the same call made first", last.conv, ops.len() - 1))
    } else {
        (false, "history independent".into())
    }
}


// ---- concurrent calls (observer; schedules are sampled, not enumerated) ---------------------------
//
// The library has no shared state, so concurrent conversions cannot interfere. A change that adds
// shared state guarded wrongly (a key checked outside its lock, a parameter passed through a
// `static`) is invisible to every sequential history. std's atomics and locks cannot be put under a
// controlled scheduler without rewriting the subject, so this stratum is a FREE-RUNNING observer:
// for every pair of operations that differ in exactly one metadata field (the pairs a partial key
// confuses), two threads call them concurrently in a loop and every result is compared with the
// sequential reference. A mismatch is a real execution of the real code and is reported; silence is
// not a proof (the evidence labels this bucket as sampled).

fn conc_pairs(tier: Tier) -> Vec<(HOp, HOp)> {
    use crate::refmodel::{ALL_MATRICES, ALL_PRIMARIES};
    let bases = [(MC::BT709, CP::BT709, TC::BT1886), (MC::Identity, CP::BT470BG, TC::SRGB)];
    let mut out = vec![];
    for &(m, p, t) in bases.iter().take(tier.pick(1, 2)) {
        let mut families: Vec<Vec<Meta>> = vec![];
        families.push(ALL_MATRICES.iter().filter(|x| **x != MC::Unspecified && **x != MC::Reserved).map(|&m2| Meta { m: m2, p, t, wide: false, full: false, ss: (0, 0) }).collect());
        families.push(ALL_PRIMARIES.iter().filter(|x| **x != CP::Unspecified && **x != CP::Reserved && **x != CP::Reserved0).map(|&p2| Meta { m, p: p2, t, wide: false, full: false, ss: (0, 0) }).collect());
        families.push(crate::refmodel::SUPPORTED_TRANSFERS.iter().map(|&t2| Meta { m, p, t: t2, wide: false, full: false, ss: (0, 0) }).collect());
        families.push([(false, false), (true, false), (false, true), (true, true)].iter().map(|&(wide, full)| Meta { m, p, t, wide, full, ss: (0, 0) }).collect());
        for fam in families {
            for (a, b, _) in PAIRS {
                for conv in [a, b] {
                    for i in 0..fam.len() {
                        for j in i + 1..fam.len() {
                            out.push((HOp { conv, meta: fam[i], variant: 7, depth: 0 }, HOp { conv, meta: fam[j], variant: 7, depth: 0 }));
                        }
                    }
                }
            }
        }
    }
    out
}

/// Run `a` and `b` concurrently `rounds` times each; returns the first result that differs from
/// its sequential reference as (which, round).
fn race_pair(a: HOp, b: HOp, ra: &Result<Vec<u32>, String>, rb: &Result<Vec<u32>, String>, rounds: usize) -> Option<(u8, usize)> {
    // both threads meet at a barrier before EVERY round, so the two calls of a round start together
    // whatever else the machine is doing (after a mismatch the remaining rounds are barrier-only)
    let barrier = std::sync::Barrier::new(2);
    let stop = std::sync::atomic::AtomicBool::new(false);
    std::thread::scope(|s| {
        let run = |op: HOp, want: &Result<Vec<u32>, String>, which: u8| {
            let (barrier, stop) = (&barrier, &stop);
            let want = want.clone();
            s.spawn(move || {
                let mut bad = None;
                for k in 0..rounds {
                    barrier.wait();
                    if stop.load(Ordering::Relaxed) {
                        continue;
                    }
                    if hist_run(&op) != want {
                        stop.store(true, Ordering::Relaxed);
                        bad = Some((which, k));
                    }
                }
                bad
            })
        };
        let (ha, hb) = (run(a, ra, 0), run(b, rb, 1));
        let (xa, xb) = (ha.join().expect("race thread"), hb.join().expect("race thread"));
        xa.or(xb)
    })
}

fn check_concurrent(rep: &mut Report, tier: Tier, base_idx: u64) {
    let pairs = conc_pairs(tier);
    let rounds = tier.pick(60, 400);
    // one pair at a time: the two racing threads are the only threads calling the library, so a
    // mismatch is attributable to this pair and the replay (the same pair, alone) can reproduce it
    let acc = (|| {
        let mut acc_store = Acc::default();
        let acc = &mut acc_store;
        let (lo, hi) = (0u64, pairs.len() as u64);
        for i in lo..hi {
            let (a, b) = pairs[i as usize];
            // sequential references, each on a fresh thread
            let (ra, rb) = (run_history(vec![a]).pop().unwrap(), run_history(vec![b]).pop().unwrap());
            acc.states += 1;
            acc.transitions += 2 * rounds as u64;
            if let Some((which, k)) = race_pair(a, b, &ra, &rb, rounds) {
                let (x, y) = if which == 0 { (a, b) } else { (b, a) };
                acc.violation(
                    base_idx + i,
                    format!("result-depends-on-concurrent-calls conv={:?}", x.conv),
                    format!("{:?} gives a different result (round {k}) while another thread runs {:?}", x, y),
                    json!({"kind":"c11conc","a":hop_json(&a),"b":hop_json(&b)}),
                );
                return acc_store;
            }
        }
        acc.bucket("concurrent pairs (free-running threads: schedules sampled, not enumerated): every result equals the sequential result", hi - lo);
        acc_store
    })();
    rep.acc.merge(acc);
    rep.extra.insert("concurrent_pairs".into(), json!(pairs.len()));
    rep.extra.insert("concurrent_rounds_per_pair".into(), json!(rounds));
}

fn replay_concurrent(case: &Value) -> (bool, String) {
    let (a, b) = (hop_from(&case["a"]), hop_from(&case["b"]));
    let (ra, rb) = (run_history(vec![a]).pop().unwrap(), run_history(vec![b]).pop().unwrap());
    // alone in this process; up to 20 x 5000 rounds
    for _ in 0..20 {
        if let Some((which, _)) = race_pair(a, b, &ra, &rb, 5000) {
            // (no round number: which round goes wrong is up to the scheduler, the verdict is not)
            let (x, y) = if which == 0 { (a, b) } else { (b, a) };
            let (x, y) = if format!("{x:?}") <= format!("{y:?}") { (x, y) } else { (y, x) };
            return (true, format!("result-depends-on-concurrent-calls :: {:?} and {:?} called concurrently from two threads: a result differs from the sequential one", x, y));
        }
    }
    (false, "100,000 concurrent rounds agree with the sequential results".into())
}

// ---- driver -------------------------------------------------------------------------------------

fn dec_cases(tier: Tier) -> Vec<DecCase> {
    let mut v = vec![];
    for (w, h) in size_pairs(tier) {
        {
            for ss in SS {
                if w % (1 << ss.0) != 0 || h % (1 << ss.1) != 0 {
                    continue;
                }
                for wide in [false, true] {
                    for k in 0..4u8 {
                        // quick: the four metadata sets rotate over the sizes (two per size);
                        // thorough: all four on every size
                        if tier == Tier::Quick && k != ((w + h) % 4) as u8 && k != ((w + h + 2 * (ss.0 as usize)) % 4 + 1) as u8 % 4 {
                            continue;
                        }
                        // the multi-megapixel frame: one storage type, one metadata set (quick: u8)
                        if w * h > 1_000_000 && (k != ((w + h) % 4) as u8 || (tier == Tier::Quick && wide)) {
                            continue;
                        }
                        v.push(DecCase { w, h, ss, wide, k, mode: 0 });
                    }
                }
            }
        }
    }
    // every width 65..=2050 on two rows: strip, block and tail logic of the row loops meets every
    // remainder (4:4:4, 4:2:0 and 4:1:1; the metadata sets rotate)
    for w in 65..=2050usize {
        for ss in [(0u8, 0u8), (1, 1), (2, 0)] {
            if w % (1 << ss.0) != 0 {
                continue;
            }
            v.push(DecCase { w, h: 2, ss, wide: w % 2 == 0, k: (w % 4) as u8, mode: 0 });
        }
    }
    // structured content (flat rows, flat columns, one solid colour) on a covering set of sizes:
    // detectors of "uniform" frames or runs see frames that are uniform in one direction only
    let st: &[usize] = match tier {
        Tier::Quick => &[2, 3, 8, 16, 33, 64],
        Tier::Thorough => &[2, 3, 4, 7, 8, 16, 17, 32, 33, 63, 64],
    };
    let mut shapes: Vec<(usize, usize)> = st.iter().flat_map(|&w| st.iter().map(move |&h| (w, h))).collect();
    shapes.extend([(128, 2), (2, 128), (257, 2), (96, 80), (1280, 6)]);
    for (w, h) in shapes {
        for ss in SS {
            if w % (1 << ss.0) != 0 || h % (1 << ss.1) != 0 {
                continue;
            }
            for wide in [false, true] {
                for mode in 1..=3u8 {
                    v.push(DecCase { w, h, ss, wide, k: ((w + h + mode as usize) % 4) as u8, mode });
                }
            }
        }
    }
    v
}

fn enc_cases(tier: Tier) -> Vec<EncCase> {
    let mut v = vec![];
    for (w, h) in size_pairs(tier) {
        {
            for ss in SS {
                if w % (1 << ss.0) != 0 || h % (1 << ss.1) != 0 {
                    continue;
                }
                for wide in [false, true] {
                    for src in 0..4u8 {
                        // the multi-megapixel frame: one storage type, one source kind
                        if w * h > 1_000_000 && (wide || src != 0) {
                            continue;
                        }
                        let k = ((w + h + src as usize) % 4) as u8;
                        v.push(EncCase { w, h, ss, wide, k, src });
                    }
                }
            }
        }
    }
    v
}

pub fn run(tier: Tier) -> Report {
    let mut rep = Report::new("C11");
    let t0 = std::time::Instant::now();
    let lap = |what: &str| {
        if std::env::var("MC_TIMING").is_ok() {
            eprintln!("[timing] C11 {what} at {:.1}s", t0.elapsed().as_secs_f64());
        }
    };
    // In the checked build (debug assertions, overflow checks) only the geometry part runs, on the
    // small sizes: there the question is whether a conversion that works in the optimised build
    // panics - a `debug_assert!` about strides that is false for some padding, an index overflow -
    // and every such failure is a `conversion-failed` violation of the same relations.
    let checked = cfg!(debug_assertions);
    let small = |w: usize, h: usize| w <= 16 && h <= 16 || matches!((w, h), (65, 3) | (128, 2) | (2, 128));
    let mut dc: Vec<DecCase> = if checked { dec_cases(tier).into_iter().filter(|c| small(c.w, c.h) && c.mode == 0).collect() } else { dec_cases(tier) };
    // largest frames first: the chunks are handed out in order, and a multi-megapixel case that starts last would be the tail
    dc.sort_by_key(|c| std::cmp::Reverse(c.w * c.h));
    let acc = par_chunks(dc.len() as u64, 8, |acc, lo, hi| {
        // every chunk runs on a fresh thread, so that the calls that preceded a case on its thread
        // are exactly the earlier cases of its chunk (a replayable history)
        let chunk: Vec<DecCase> = dc[lo as usize..hi as usize].to_vec();
        let sub = fresh(move || {
            let mut a = Acc::default();
            let mut memo = HashMap::new();
            for (k, c) in chunk.iter().enumerate() {
                let before = a.viols.len();
                if c.wide {
                    check_decode::<u16>(&mut a, lo + k as u64, tier, c, &mut memo)
                } else {
                    check_decode::<u8>(&mut a, lo + k as u64, tier, c, &mut memo)
                }
                if a.viols.len() > before {
                    // does the case fail on its own (fresh thread)? if not, the failure is a
                    // dependence on the call history: report it as such, with the history
                    let c2 = *c;
                    let alone = fresh(move || {
                        let mut b = Acc::default();
                        let mut m2 = HashMap::new();
                        if c2.wide {
                            check_decode::<u16>(&mut b, 0, tier, &c2, &mut m2)
                        } else {
                            check_decode::<u8>(&mut b, 0, tier, &c2, &mut m2)
                        }
                        !b.viols.is_empty()
                    });
                    if !alone {
                        let keys: Vec<String> = a.viols.iter().filter(|(_, v)| v.index == lo + k as u64).map(|(k, _)| k.clone()).collect();
                        for key in keys {
                            let v = a.viols.remove(&key).unwrap();
                            a.violation(
                                v.index,
                                "result-depends-on-call-history (decode cases in sequence)".into(),
                                format!("holds when run first on a fresh thread, fails after {k} earlier conversions on the same thread: {}", v.detail),
                                json!({"kind":"c11decseq","tier":tier.name(),"cases": chunk[..=k].iter().map(dec_json).collect::<Vec<_>>()}),
                            );
                        }
                    }
                    break;
                }
            }
            a
        });
        acc.merge(sub);
        let _ = hi;
        if lo == 0 {
            acc.sample(json!({"case": dec_json(&dc[(hi - 1) as usize]), "paddings": pads(tier, 4, 4).len()}));
        }
    });
    rep.acc.merge(acc);
    lap("decode cases done");
    let base = dc.len() as u64;
    if checked {
        let ec: Vec<EncCase> = enc_cases(tier).into_iter().filter(|c| small(c.w, c.h)).collect();
        let acc = par_chunks(ec.len() as u64, 8, |acc, lo, hi| {
            for i in lo..hi {
                let c = &ec[i as usize];
                if c.wide {
                    check_encode::<u16>(acc, base + i, c)
                } else {
                    check_encode::<u8>(acc, base + i, c)
                }
            }
        });
        rep.acc.merge(acc);
        let mut acc = Acc::default();
        for (w, h) in [(1usize, 1usize), (3, 2), (16, 16), (65, 3)] {
            for op in FOPS {
                check_float(&mut acc, base, w, h, op);
            }
        }
        rep.acc.merge(acc);
        rep.bound = format!("checked build: the geometry relations on sizes up to 16x16 (plus 65x3, 128x2, 2x128): {} YUV sources x every padding of the menu, {} encodes, 32 float conversions", dc.len(), ec.len());
        rep.rule = "as in the optimised build; a panic is a conversion-failed violation".into();
        rep.guard_bucket("decode to Rgb: pointwise, repeatable, layout-independent, source untouched");
        rep.guard_bucket("encode: luma = 4:4:4 luma, chroma from own block, plane sizes right, repeatable");
        return rep;
    }
    let mut fc = vec![];
    for (w, h) in size_pairs(tier) {
        {
            if tier == Tier::Quick && w * h > 1100 && w != h && !matches!((w, h), (96, 80) | (1280, 54) | (65, 64) | (100, 41)) {
                continue;
            }
            for op in FOPS {
                fc.push((w, h, op));
            }
        }
    }
    let acc = par_chunks(fc.len() as u64, 4, |acc, lo, hi| {
        for i in lo..hi {
            let (w, h, op) = fc[i as usize];
            check_float(acc, base + i, w, h, op);
        }
    });
    rep.acc.merge(acc);
    lap("float cases done");
    {
        let mut acc = Acc::default();
        check_provenance(&mut acc, base);
        rep.acc.merge(acc);
    }
    {
        // every pixel count 1..=SWEEP_END for every float conversion, in chunks of 128 lengths
        let per = (SWEEP_END as u64 + 127) / 128;
        let acc = par_chunks(FOPS.len() as u64 * per, 1, |acc, lo, _| {
            // longest images first
            let (op, c) = (FOPS[(lo % FOPS.len() as u64) as usize], (per - 1 - lo / FOPS.len() as u64) as usize);
            float_length_sweep(acc, base + lo, op, 1 + c * 128, (1 + (c + 1) * 128).min(SWEEP_END + 1));
        });
        rep.acc.merge(acc);
    }
    let base = base + fc.len() as u64;
    let mut ec = enc_cases(tier);
    ec.sort_by_key(|c| std::cmp::Reverse(c.w * c.h));
    let acc = par_chunks(ec.len() as u64, 8, |acc, lo, hi| {
        for i in lo..hi {
            let c = &ec[i as usize];
            if c.wide {
                check_encode::<u16>(acc, base + i, c)
            } else {
                check_encode::<u8>(acc, base + i, c)
            }
        }
    });
    rep.acc.merge(acc);
    lap("sweeps and encodes done");
    check_histories(&mut rep, tier, base + ec.len() as u64);
    lap("thread histories done");
    check_histories_process(&mut rep, tier, base + ec.len() as u64 + 1);
    lap("process histories done");
    check_concurrent(&mut rep, tier, base + ec.len() as u64 + 2);
    lap("two-thread observer done");
    rep.guard_bucket("histories [a,b] and [a,b,a]: every result equals the fresh-thread result");
    rep.guard_bucket("large frames: histories [a,b] and [a,b,a]: every result equals the fresh-thread result");
    rep.bound = format!(
        "process-level histories: the same walk over the first image variant in one single-threaded child process against one fresh process per operation; large-frame histories [a,b], [a,b,a] over {} operations (every conversion x storage/depth class 8/u8, 8/u16, 10, 12, 16 x both ranges, on 65,539-pixel and 2x2 frames), each on a fresh thread; call histories [a,b] and [a,b,a] over an alphabet of {} operations (10 conversions x metadata varying every field from {} base triples x {} image variants), each on a fresh thread; image sizes {:?}^2 (plus long/large shapes such as 128x2, 2x128, 257x1, 256x4, 320x8) restricted to multiples of the subsampling x 6 subsamplings x u8/u16 x 4 metadata sets: {} YUV sources (each to Rgb, LinearRgb, Xyb; by reference, by value, repeated, and rebuilt with {} other paddings/poisons; 0..=32 on each axis at 4x4 and 8x8), {} float->float conversions (8 kinds), {} encodes (4 source kinds)",
        rep.extra.get("history_ops_large_frames").and_then(|v| v.as_u64()).unwrap_or(0),
        rep.extra.get("history_ops").and_then(|v| v.as_u64()).unwrap_or(0), tier.pick(2, 4), tier.pick(3, 5),
        sizes(tier), dc.len(), pads(tier, 5, 5).len(), fc.len(), ec.len()
    );
    rep.rule = "output dims = input dims; output pixel (x,y) bit-identical to the conversion of the 1x1 4:4:4 image of Y(x,y), U(x>>ss_x,y>>ss_y), V(..) (resp. of the single float pixel); subsampled encode: luma = 4:4:4 luma, each chroma sample among its block's 4:4:4 chroma, plane sizes (w>>ss_x,h>>ss_y); identical results for every padding/stride/poison; borrowed sources equal to a prior clone; second run identical".into();
    rep.assumptions = vec!["position-coded content distinguishes neighbours, rows and columns (a transposition, shift or leak changes values)".into()];
    rep.guard_bucket("decode to Rgb: pointwise, repeatable, layout-independent, source untouched");
    rep.guard_bucket("decode to Xyb: pointwise, repeatable, layout-independent, source untouched");
    rep.guard_bucket("float conversion: pointwise, order-preserving, repeatable");
    rep.guard_bucket("float conversion: every pixel count of the sweep converts pointwise");
    rep.guard_bucket("provenance: a conversion's result converts on like an image constructed from its data");
    rep.guard_bucket("encode: luma = 4:4:4 luma, chroma from own block, plane sizes right, repeatable");
    let _ = Plane::<u8>::new;
    rep
}

pub fn replay(case: &Value) -> (bool, String) {
    let mut acc = Acc::default();
    let g = |k: &str| case[k].as_u64().unwrap() as usize;
    match case["kind"].as_str().unwrap() {
        "c11dec" => {
            let c = DecCase { w: g("w"), h: g("h"), ss: (case["ss"][0].as_u64().unwrap() as u8, case["ss"][1].as_u64().unwrap() as u8), wide: case["u16"].as_bool().unwrap(), k: g("meta") as u8, mode: case["content"].as_u64().unwrap_or(0) as u8 };
            let mut memo = HashMap::new();
            // replay with the larger padding menu: a superset of both tiers' menus at this size
            if c.wide {
                check_decode::<u16>(&mut acc, 0, Tier::Thorough, &c, &mut memo)
            } else {
                check_decode::<u8>(&mut acc, 0, Tier::Thorough, &c, &mut memo)
            }
        }
        "c11float" => check_float(&mut acc, 0, g("w"), g("h"), case["op"].as_str().unwrap()),
        "c11prov" => check_provenance(&mut acc, 0),
        "c11floatlen" => float_length_sweep(&mut acc, 0, case["op"].as_str().unwrap(), g("len"), g("len") + 1),
        "c11hist" => return replay_history(case),
        "c11conc" => return replay_concurrent(case),
        "c11histproc" => return replay_history_process(case),
        "c11decseq" => {
            let tier = if case["tier"] == "thorough" { Tier::Thorough } else { Tier::Quick };
            let cases: Vec<DecCase> = case["cases"].as_array().unwrap().iter().map(|c| DecCase {
                w: c["w"].as_u64().unwrap() as usize,
                h: c["h"].as_u64().unwrap() as usize,
                ss: (c["ss"][0].as_u64().unwrap() as u8, c["ss"][1].as_u64().unwrap() as u8),
                wide: c["u16"].as_bool().unwrap(),
                k: c["meta"].as_u64().unwrap() as u8,
                mode: c["content"].as_u64().unwrap_or(0) as u8,
            }).collect();
            let res = fresh(move || {
                let mut memo = HashMap::new();
                let mut last = Acc::default();
                for c in cases.iter() {
                    last = Acc::default();
                    if c.wide {
                        check_decode::<u16>(&mut last, 0, tier, c, &mut memo)
                    } else {
                        check_decode::<u8>(&mut last, 0, tier, c, &mut memo)
                    }
                }
                last.viols.values().next().map(|v| v.detail.clone())
            });
            return match res {
                Some(d) => (true, format!("result-depends-on-call-history (decode cases in sequence) :: {d}")),
                None => (false, "sequence ends well".into()),
            };
        }
        _ => {
            let c = EncCase { w: g("w"), h: g("h"), ss: (case["ss"][0].as_u64().unwrap() as u8, case["ss"][1].as_u64().unwrap() as u8), wide: case["u16"].as_bool().unwrap(), k: g("meta") as u8, src: g("src") as u8 };
            if c.wide {
                check_encode::<u16>(&mut acc, 0, &c)
            } else {
                check_encode::<u8>(&mut acc, 0, &c)
            }
        }
    }
    match acc.viols.values().next() {
        Some(v) => (true, format!("{} :: {}", v.key, v.detail)),
        None => (false, "ok".into()),
    }
}
