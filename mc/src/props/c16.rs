//! C16 — the neutral axis and the black/white anchors survive every stage.

use super::c01::{configs, decode_dyn};
use crate::explore::*;
use crate::img::*;
use crate::refmodel::*;
use serde_json::{json, Value};
use yuvxyb::{ColorPrimaries as CP, TransferCharacteristic as TC};

fn grey_levels() -> Vec<f32> {
    let mut v: Vec<f32> = (0..=(1u32 << 20)).map(|i| i as f32 / (1u32 << 20) as f32).collect();
    for k in 21..=60 {
        v.push(2f32.powi(-k));
    }
    v.push(f32::MIN_POSITIVE);
    v.push(f32::from_bits(1));
    v
}

fn spread(p: [f32; 3]) -> f64 {
    let mx = p[0].max(p[1]).max(p[2]) as f64;
    let mn = p[0].min(p[1]).min(p[2]) as f64;
    if p.iter().any(|c| c.is_nan()) {
        f64::INFINITY
    } else {
        mx - mn
    }
}

fn check_yuv_grey(acc: &mut Acc, c: &super::c01::Cfg, base: u64) {
    let n = c.n as u32;
    let ncodes = 1usize << n;
    let ys: Vec<u16> = (0..ncodes).map(|v| v as u16).collect();
    let mid = vec![(1u32 << (n - 1)) as u16; ncodes];
    let mk = |y: u16| json!({"kind":"c16yuv","cfg":c.json(),"y":y});
    acc.states += ncodes as u64;
    acc.transitions += ncodes as u64;
    let rgb = match decode_dyn(c, &ys, &mid, &mid) {
        Ok(r) => r,
        Err(e) => {
            acc.violation(base, format!("grey-decode-failed {} {}", c.key(), panic_site(&e)), e, mk(0));
            return;
        }
    };
    let (black, white) = if c.full { (0usize, ncodes - 1) } else { (16usize << (n - 8), 235usize << (n - 8)) };
    let mut worst = 0.0;
    for (i, p) in rgb.data().iter().enumerate() {
        let s = spread(*p);
        if s > worst {
            worst = s;
        }
        if s > 5e-7 {
            acc.violation(base + i as u64, format!("grey-not-neutral {}", c.key()), format!("Y={i}, U=V={}: decoded {} spread {s:.3e} > 5e-7", mid[0], px3s(*p)), mk(i as u16));
            return;
        }
    }
    let pb = rgb.data()[black];
    if pb != [0.0, 0.0, 0.0] {
        acc.violation(base + black as u64, format!("black-not-zero {}", c.key()), format!("black code {black} decodes to {}", px3s(pb)), mk(black as u16));
        return;
    }
    let pw = rgb.data()[white];
    if !pw.iter().all(|v| (*v as f64 - 1.0).abs() <= 1e-6) {
        acc.violation(base + white as u64, format!("white-not-one {}", c.key()), format!("white code {white} decodes to {}", px3s(pw)), mk(white as u16));
        return;
    }
    acc.bucket("grey codes decode to R=G=B (black exactly 0, white within 1e-6)", ncodes as u64);
    acc.worst("yuv grey spread (budget 5e-7)", worst, || c.json());
}

fn check_curve(acc: &mut Acc, t: TC, levels: &[f32], base: u64) {
    let is_log = matches!(t, TC::Logarithmic100 | TC::Logarithmic316);
    for g in [false, true] {
        let mk = |x: f32| json!({"kind":"c16curve","tc":format!("{t:?}"),"to_gamma":g,"x":x.to_bits()});
        let f = |xs: &[f32]| if g { super::c03::to_gamma(t, xs) } else { super::c03::to_linear(t, xs) };
        // anchors
        match f(&[0.0, 1.0, 0.0]) {
            Ok(o) => {
                if !is_log && !((o[0] as f64).abs() <= 1e-6) {
                    acc.violation(base, format!("curve-anchor-0 tc={t:?}"), format!("dir to_gamma={g}: 0 -> {:e}", o[0]), mk(0.0));
                }
                let b = tc_budget(t, g);
                if !((o[1] as f64 - 1.0).abs() < b) {
                    acc.violation(base, format!("curve-anchor-1 tc={t:?}"), format!("dir to_gamma={g}: 1 -> {:e}", o[1]), mk(1.0));
                }
                acc.bucket("curve anchors checked", 2);
            }
            Err(e) => {
                acc.violation(base, format!("curve-failed tc={t:?} {}", panic_site(&e)), e, mk(0.0));
                return;
            }
        }
        // grey stays grey: every level as a grey pixel (three equal components)
        let px: Vec<[f32; 3]> = levels.iter().map(|&v| [v; 3]).collect();
        let len = px.len();
        let out: Result<Vec<[f32; 3]>, String> = if g {
            yuvxyb::LinearRgb::new(px, len, 1).map_err(|e| format!("{e:?}")).and_then(|l| guarded(|| yuvxyb::Rgb::try_from((l, t, CP::BT709)))?.map(|r| r.data().to_vec()).map_err(|e| format!("{e:?}")))
        } else {
            yuvxyb::Rgb::new(px, len, 1, t, CP::BT709).map_err(|e| format!("{e:?}")).and_then(|r| guarded(|| yuvxyb::LinearRgb::try_from(r))?.map(|r| r.data().to_vec()).map_err(|e| format!("{e:?}")))
        };
        acc.states += len as u64;
        acc.transitions += len as u64;
        match out {
            Ok(o) => {
                for (i, p) in o.iter().enumerate() {
                    if !(p[0].to_bits() == p[1].to_bits() && p[1].to_bits() == p[2].to_bits()) {
                        acc.violation(base + i as u64, format!("curve-grey-not-grey tc={t:?}"), format!("grey {:e} -> {}", levels[i], px3s(*p)), mk(levels[i]));
                        return;
                    }
                }
                acc.bucket("grey through a curve stays grey", len as u64);
            }
            Err(e) => acc.violation(base, format!("curve-failed tc={t:?} {}", panic_site(&e)), e, mk(levels[0])),
        }
    }
}

fn check_primaries(acc: &mut Acc, p: CP, to709: bool, levels: &[f32], base: u64) {
    let px: Vec<[f32; 3]> = levels.iter().map(|&v| [v; 3]).collect();
    let mk = |x: f32| json!({"kind":"c16prim","primaries":format!("{p:?}"),"to709":to709,"x":x.to_bits()});
    acc.states += px.len() as u64;
    acc.transitions += px.len() as u64;
    match super::c06::convert(p, to709, &px) {
        Ok(o) => {
            let mut worst = 0.0;
            for (i, q) in o.iter().enumerate() {
                let tol = 1e-5 * (levels[i] as f64).max(1.0);
                let s = spread(*q);
                if s / tol > worst {
                    worst = s / tol;
                }
                if s > tol {
                    acc.violation(base + i as u64, format!("primaries-grey-not-grey p={p:?} to709={to709}"), format!("grey {:e} -> {} spread {s:.3e}", levels[i], px3s(*q)), mk(levels[i]));
                    return;
                }
            }
            acc.bucket("grey through a primaries conversion stays grey", px.len() as u64);
            acc.worst("primaries grey spread / budget", worst, || json!({"primaries":format!("{p:?}"),"to709":to709}));
        }
        Err(e) => acc.violation(base, format!("primaries-failed p={p:?} {}", panic_site(&e)), e, mk(levels[0])),
    }
}

fn check_xyb_hsl(acc: &mut Acc, levels: &[f32], base: u64) {
    let px: Vec<[f32; 3]> = levels.iter().map(|&v| [v; 3]).collect();
    acc.states += 2 * px.len() as u64;
    acc.transitions += 2 * px.len() as u64;
    match super::c04::to_xyb(&px) {
        Ok(o) => {
            let (mut wx, mut wyb) = (0.0f64, 0.0f64);
            for (i, q) in o.iter().enumerate() {
                let mk = || json!({"kind":"c16xyb","x":levels[i].to_bits()});
                let (x, yb) = ((q[0] as f64).abs(), (q[1] as f64 - q[2] as f64).abs());
                wx = wx.max(x);
                wyb = wyb.max(yb);
                if !(x <= 1e-6) || !(yb <= 1e-6) {
                    acc.violation(base + i as u64, "xyb-grey-not-neutral".into(), format!("grey {:e} -> XYB {}: |X|={x:.3e}, |Y-B|={yb:.3e}", levels[i], px3s(*q)), mk());
                    return;
                }
                if levels[i] == 0.0 && !q.iter().all(|c| c.abs() <= 1e-6) {
                    acc.violation(base + i as u64, "xyb-black-not-zero".into(), format!("black -> XYB {}", px3s(*q)), mk());
                    return;
                }
            }
            acc.bucket("grey -> XYB neutral", px.len() as u64);
            acc.worst("xyb |X| (budget 1e-6)", wx, || json!(null));
            acc.worst("xyb |Y-B| (budget 1e-6)", wyb, || json!(null));
        }
        Err(e) => acc.violation(base, format!("xyb-failed {}", panic_site(&e)), e, json!({"kind":"c16xyb","x":0})),
    }
    match super::c17::to_hsl(&px) {
        Ok(o) => {
            for (i, q) in o.iter().enumerate() {
                if !(q[0] == 0.0 && q[1] == 0.0 && (q[2] as f64 - levels[i] as f64).abs() <= 1e-6) {
                    acc.violation(base + i as u64, "hsl-grey".into(), format!("grey {:e} -> HSL {}", levels[i], px3s(*q)), json!({"kind":"c16hsl","x":levels[i].to_bits()}));
                    return;
                }
            }
            acc.bucket("grey -> HSL has H=0, S=0, L=level", px.len() as u64);
        }
        Err(e) => acc.violation(base, format!("hsl-failed {}", panic_site(&e)), e, json!({"kind":"c16hsl","x":0})),
    }
}

/// Neutral samples inside subsampled images whose neighbouring chroma samples are not neutral:
/// the statement is about each sample, whatever surrounds it.
fn check_mixed_chroma<T: yuvxyb::Pixel>(acc: &mut Acc, idx: u64, m: yuvxyb::MatrixCoefficients, full: bool, n: u8, ss: (u8, u8)) {
    use yuvxyb::{Frame, Rgb, Yuv};
    let (w, h) = (8usize, 8usize);
    let max = ((1u32 << n) - 1) as u16;
    let mid = (1u32 << (n - 1)) as u16;
    let (sx, sy) = (ss.0 as usize, ss.1 as usize);
    let chroma = |plane: usize| {
        move |x: usize, y: usize| -> u16 {
            if (x + y) % 2 == 0 {
                mid
            } else if (x + plane) % 2 == 0 {
                0
            } else {
                max
            }
        }
    };
    let frame = Frame {
        planes: [
            plane_new::<T>(w, h, 0, 0, 0, 0, |x, y| (((x + y * w) as u32 * max as u32) / 63) as u16, None),
            plane_new::<T>(w >> sx, h >> sy, sx, sy, 3, 0, chroma(1), Some(0)),
            plane_new::<T>(w >> sx, h >> sy, sx, sy, 0, 2, chroma(2), Some(max)),
        ],
    };
    let cfg = cfg_full(n, full, ss, m, TC::BT1886, CP::BT709);
    let case = || json!({"kind":"c16mixed","matrix":format!("{m:?}"),"full":full,"depth":n,"ss":[ss.0,ss.1],"u16":std::mem::size_of::<T>()==2});
    acc.states += (w * h) as u64;
    acc.transitions += 1;
    let rgb = match guarded(|| Rgb::try_from(&Yuv::new(frame, cfg).expect("well-formed"))) {
        Ok(Ok(r)) => r,
        other => {
            acc.violation(idx, "grey-decode-failed (mixed chroma)".into(), format!("{:?}", other.map(|r| r.map(|_| ()))), case());
            return;
        }
    };
    let mut neutral = 0;
    for y in 0..h {
        for x in 0..w {
            if ((x >> sx) + (y >> sy)) % 2 == 0 {
                neutral += 1;
                let p = rgb.data()[y * w + x];
                let s = spread(p);
                if s > 5e-7 {
                    acc.violation(
                        idx,
                        format!("grey-not-neutral among coloured neighbours ss=({},{})", ss.0, ss.1),
                        format!("{m:?} full={full} depth {n}: pixel ({x},{y}) has neutral chroma but decodes to {} (spread {s:.3e})", px3s(p)),
                        case(),
                    );
                    return;
                }
            }
        }
    }
    acc.bucket("neutral samples among coloured neighbours decode to grey", neutral);
}

/// "Every matrix": the luma/chroma matrices outside the seven standard ones are rejected by the
/// library today; where one of them (with some primaries) is accepted, neutral chroma must still
/// decode to grey. (Identity is RGB itself, not a luma/chroma matrix: "neutral chroma" means nothing there.)
fn check_other_matrices(acc: &mut Acc, base: u64) {
    use yuvxyb::{MatrixCoefficients as MC, Rgb};
    for m in [MC::BT2020ConstantLuminance, MC::ChromaticityDerivedNonConstantLuminance, MC::ChromaticityDerivedConstantLuminance, MC::ST2085, MC::ICtCp] {
        for &p in SUPPORTED_PRIMARIES.iter() {
            for (n, wide, full) in [(8u8, false, false), (10, true, true)] {
                let ncodes = 1usize << n;
                let ys: Vec<u16> = (0..ncodes).map(|v| v as u16).collect();
                let mid = vec![(1u32 << (n - 1)) as u16; ncodes];
                let cfg = cfg_full(n, full, (0, 0), m, TC::BT1886, p);
                let case = || json!({"kind":"c16other","matrix":format!("{m:?}"),"primaries":format!("{p:?}"),"depth":n,"u16":wide,"full":full});
                acc.states += 1;
                acc.transitions += 1;
                let r = guarded(|| if wide { Rgb::try_from(&yuv444_row::<u16>(&ys, &mid, &mid, cfg)) } else { Rgb::try_from(&yuv444_row::<u8>(&ys, &mid, &mid, cfg)) });
                match r {
                    Ok(Ok(rgb)) => {
                        if let Some((i, px)) = rgb.data().iter().enumerate().find(|(_, px)| spread(**px) > 5e-7) {
                            acc.violation(base, format!("grey-not-neutral matrix={m:?} primaries={p:?}"), format!("{m:?}/{p:?} depth {n}: Y={i}, U=V={}: decoded {} spread {:.3e} > 5e-7", mid[0], px3s(*px), spread(*px)), case());
                            return;
                        }
                        acc.bucket("other luma/chroma matrices: accepted, neutral chroma decodes to grey", 1);
                    }
                    Ok(Err(_)) => acc.bucket("other luma/chroma matrices: rejected (nothing to check)", 1),
                    Err(pn) => {
                        acc.violation(base, format!("grey-decode-failed matrix={m:?} {}", panic_site(&pn)), pn, case());
                        return;
                    }
                }
            }
        }
    }
}

pub fn run(_tier: Tier) -> Report {
    let mut rep = Report::new("C16");
    {
        let mut acc = Acc::default();
        check_other_matrices(&mut acc, 9u64 << 32);
        rep.acc.merge(acc);
    }
    {
        let mut jobs = vec![];
        for &m in STD_MATRICES.iter() {
            for full in [false, true] {
                for (n, wide) in [(8u8, false), (10, true), (16, true)] {
                    for ss in [(0u8, 0u8), (1, 0), (1, 1), (0, 1), (2, 0), (2, 2)] {
                        jobs.push((m, full, n, wide, ss));
                    }
                }
            }
        }
        let acc = par_chunks(jobs.len() as u64, 4, |acc, lo, hi| {
            for i in lo..hi {
                let (m, full, n, wide, ss) = jobs[i as usize];
                if wide {
                    check_mixed_chroma::<u16>(acc, (5u64 << 32) + i, m, full, n, ss)
                } else {
                    check_mixed_chroma::<u8>(acc, (5u64 << 32) + i, m, full, n, ss)
                }
            }
        });
        rep.acc.merge(acc);
    }
    let cfgs = configs();
    let acc = par_chunks(cfgs.len() as u64, 1, |acc, lo, _| check_yuv_grey(acc, &cfgs[lo as usize], lo << 16));
    rep.acc.merge(acc);
    let levels = grey_levels();
    let base = 1u64 << 32;
    let acc = par_chunks(SUPPORTED_TRANSFERS.len() as u64, 1, |acc, lo, _| check_curve(acc, SUPPORTED_TRANSFERS[lo as usize], &levels, base + (lo << 24)));
    rep.acc.merge(acc);
    let acc = par_chunks(22, 1, |acc, lo, _| check_primaries(acc, SUPPORTED_PRIMARIES[(lo / 2) as usize], lo % 2 == 0, &levels, 2 * base + (lo << 24)));
    rep.acc.merge(acc);
    let nl = levels.len() as u64;
    let acc = par_chunks(nl, 1 << 14, |acc, lo, hi| check_xyb_hsl(acc, &levels[lo as usize..hi as usize], 3 * base + lo));
    rep.acc.merge(acc);
    rep.acc.sample(json!({"yuv":"every luma code at every depth 8..16 with U=V=2^(n-1), 140 configs","linear":"2^20+1 grey levels k/2^20 plus 2^-k (k=21..60), min normal, min subnormal"}));
    rep.exhaustive = true;
    rep.bound = format!("every luma code of every depth (sum 130,816 per matrix x range x storage) x 140 configs; neutral samples inside 8x8 images with alternating neutral/saturated chroma for 6 subsamplings x 7 matrices x 2 ranges x depths {{8,10,16}}; {} linear grey levels through 14 curves x 2 directions, 22 primaries directions, XYB and HSL", nl);
    rep.rule = "decode spread <= 5e-7, black exactly 0, white within 1e-6; curves 0->0 within 1e-6 (non-log) and 1->1 within the C03 budget, grey stays bit-identical across channels; primaries grey spread <= 1e-5*max(1,v); XYB |X|,|Y-B| <= 1e-6 and black -> 0; HSL grey -> (0,0,level)".into();
    rep.assumptions = vec!["the 2^20-level grid plus the 2^-k stratum stands for 'all grey levels' of the continuous linear axis; the code axis is complete".into()];
    rep.guard_bucket("grey codes decode to R=G=B (black exactly 0, white within 1e-6)");
    rep.guard_bucket("grey through a curve stays grey");
    rep.guard_bucket("grey through a primaries conversion stays grey");
    rep.guard_bucket("grey -> XYB neutral");
    rep.guard_bucket("grey -> HSL has H=0, S=0, L=level");
    rep.guard_bucket("neutral samples among coloured neighbours decode to grey");
    rep.guard("curve anchors: 14 curves x 2 directions x 2", rep.acc.buckets.get("curve anchors checked").copied().unwrap_or(0) == 56);
    let _ = (DEPTH_STORAGE, STD_MATRICES);
    rep
}

pub fn replay(case: &Value) -> (bool, String) {
    let mut acc = Acc::default();
    match case["kind"].as_str().unwrap() {
        "c16yuv" => check_yuv_grey(&mut acc, &super::c01::Cfg::from_json(&case["cfg"]), 0),
        "c16other" => check_other_matrices(&mut acc, 0),
        "c16curve" => check_curve(&mut acc, tc_from_name(case["tc"].as_str().unwrap()), &[f32::from_bits(case["x"].as_u64().unwrap() as u32)], 0),
        "c16mixed" => {
            let m = mc_from_name(case["matrix"].as_str().unwrap());
            let (full, n) = (case["full"].as_bool().unwrap(), case["depth"].as_u64().unwrap() as u8);
            let ss = (case["ss"][0].as_u64().unwrap() as u8, case["ss"][1].as_u64().unwrap() as u8);
            if case["u16"].as_bool().unwrap() {
                check_mixed_chroma::<u16>(&mut acc, 0, m, full, n, ss)
            } else {
                check_mixed_chroma::<u8>(&mut acc, 0, m, full, n, ss)
            }
        }
        "c16prim" => check_primaries(&mut acc, cp_from_name(case["primaries"].as_str().unwrap()), case["to709"].as_bool().unwrap(), &[f32::from_bits(case["x"].as_u64().unwrap() as u32)], 0),
        _ => check_xyb_hsl(&mut acc, &[f32::from_bits(case["x"].as_u64().unwrap() as u32)], 0),
    }
    match acc.viols.values().next() {
        Some(v) => (true, format!("{} :: {}", v.key, v.detail)),
        None => (false, "ok".into()),
    }
}
