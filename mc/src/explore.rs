//! Exhaustive product-domain exploration driver (engines E1/E2).
//!
//! A check enumerates an indexable finite space `0..total`; the driver hands fixed-size index
//! chunks to worker threads (order of hand-out is the only thing `VERIF_SEED` influences — never
//! coverage), every worker folds its observations into a thread-local [`Acc`], and the
//! accumulators are merged deterministically (violations keep the lowest index per finding key).

use serde_json::{json, Value};
use std::collections::BTreeMap;
use std::sync::atomic::{AtomicU64, Ordering};
use std::sync::Mutex;

#[derive(Clone, Copy, PartialEq, Eq, Debug)]
pub enum Tier {
    Quick,
    Thorough,
}

impl Tier {
    pub fn name(self) -> &'static str {
        match self {
            Tier::Quick => "quick",
            Tier::Thorough => "thorough",
        }
    }
    pub fn pick<T>(self, q: T, t: T) -> T {
        match self {
            Tier::Quick => q,
            Tier::Thorough => t,
        }
    }
}

#[derive(Clone, Debug)]
pub struct Violation {
    /// Stable finding key: property-level class of the failure (call site / config / input class).
    pub key: String,
    /// Human readable observation (deterministic; compared between explorer and replay).
    pub detail: String,
    /// Self-contained replayable case description.
    pub case: Value,
    /// Position in the simplest-first enumeration order (lower = simpler).
    pub index: u64,
}

/// Per-thread accumulator.
#[derive(Default)]
pub struct Acc {
    pub states: u64,
    pub transitions: u64,
    pub buckets: BTreeMap<String, u64>,
    /// label -> (worst value, case that produced it)
    pub worst: BTreeMap<String, (f64, Value)>,
    pub viols: BTreeMap<String, Violation>,
    pub samples: Vec<Value>,
}

impl Acc {
    pub fn bucket(&mut self, name: &str, n: u64) {
        if n == 0 {
            return;
        }
        if let Some(v) = self.buckets.get_mut(name) {
            *v += n;
        } else {
            self.buckets.insert(name.to_string(), n);
        }
    }
    /// Track the maximum of a measured quantity (error, error/budget ratio...).
    pub fn worst(&mut self, label: &str, v: f64, case: impl FnOnce() -> Value) {
        match self.worst.get_mut(label) {
            Some(e) => {
                if v > e.0 || (v.is_nan() && !e.0.is_nan()) {
                    *e = (v, case());
                }
            }
            None => {
                self.worst.insert(label.to_string(), (v, case()));
            }
        }
    }
    pub fn violation(&mut self, index: u64, key: String, detail: String, case: Value) {
        match self.viols.get(&key) {
            Some(v) if v.index <= index => {}
            _ => {
                if self.viols.len() < 4096 || self.viols.contains_key(&key) {
                    self.viols.insert(key.clone(), Violation { key, detail, case, index });
                }
            }
        }
    }
    pub fn sample(&mut self, v: Value) {
        if self.samples.len() < 4 {
            self.samples.push(v);
        }
    }
    pub fn merge(&mut self, o: Acc) {
        self.states += o.states;
        self.transitions += o.transitions;
        for (k, v) in o.buckets {
            *self.buckets.entry(k).or_insert(0) += v;
        }
        for (k, v) in o.worst {
            match self.worst.get_mut(&k) {
                Some(e) => {
                    if v.0 > e.0 || (v.0.is_nan() && !e.0.is_nan()) {
                        *e = v;
                    }
                }
                None => {
                    self.worst.insert(k, v);
                }
            }
        }
        for (k, v) in o.viols {
            match self.viols.get(&k) {
                Some(e) if e.index <= v.index => {}
                _ => {
                    self.viols.insert(k, v);
                }
            }
        }
        for s in o.samples {
            if self.samples.len() < 6 {
                self.samples.push(s);
            }
        }
    }
}

/// Pixel counts of the single large images every batch check also converts: just above 2^16 and
/// 2^18 and not multiples of 2, 3 or 4 (size thresholds for LUTs, banding, threading and their
/// remainders), and one frame just above HD video size, 1281x721 = 923,601 pixels (odd in both
/// dimensions; `img::shape_of` gives it that shape).
pub const BIG_SIZES: [usize; 3] = [65_539, 262_147, 923_601];

static LIGHT: std::sync::atomic::AtomicBool = std::sync::atomic::AtomicBool::new(false);
/// "matrix tier": reduced alphabets used when the same checks run once per build configuration (C20 quick).
pub fn set_light(b: bool) {
    LIGHT.store(b, Ordering::Relaxed);
}
pub fn light() -> bool {
    LIGHT.load(Ordering::Relaxed)
}

pub fn threads() -> usize {
    std::env::var("VERIF_THREADS")
        .ok()
        .and_then(|s| s.parse().ok())
        .unwrap_or_else(|| std::thread::available_parallelism().map(|n| n.get()).unwrap_or(8))
        .max(1)
}

pub fn seed() -> u64 {
    std::env::var("VERIF_SEED").ok().and_then(|s| s.parse::<i64>().ok()).unwrap_or(0) as u64
}

/// Run `f(acc, lo, hi)` over every chunk `[lo,hi)` of `0..total`, on all cores. Every index is
/// visited exactly once; the seed only rotates the hand-out order.
pub fn par_chunks<F>(total: u64, chunk: u64, f: F) -> Acc
where
    F: Fn(&mut Acc, u64, u64) + Sync,
{
    let chunk = chunk.max(1);
    let nchunks = (total + chunk - 1) / chunk;
    let next = AtomicU64::new(0);
    let rot = if nchunks > 0 { seed() % nchunks } else { 0 };
    let out = Mutex::new(Acc::default());
    let nthreads = threads().min(nchunks.max(1) as usize);
    std::thread::scope(|s| {
        for _ in 0..nthreads {
            s.spawn(|| {
                let mut acc = Acc::default();
                loop {
                    let c = next.fetch_add(1, Ordering::Relaxed);
                    if c >= nchunks {
                        break;
                    }
                    let c = (c + rot) % nchunks;
                    let lo = c * chunk;
                    let hi = (lo + chunk).min(total);
                    f(&mut acc, lo, hi);
                }
                out.lock().unwrap().merge(acc);
            });
        }
    });
    out.into_inner().unwrap()
}

/// Like [`par_chunks`], but every chunk is handed to `f` as three consecutive sub-ranges of
/// varied lengths (a 1..=7 element head, a 1..=11 element tail, the rest in between), so that the
/// images built from them have many different pixel counts (every residue modulo 2, 3, 4, 8, 16):
/// per-image code paths such as SIMD/chunked loops with remainders are exercised, not only
/// 2^k-pixel images.
pub fn par_chunks_varied<F>(total: u64, chunk: u64, f: F) -> Acc
where
    F: Fn(&mut Acc, u64, u64) + Sync,
{
    par_chunks(total, chunk, |acc, lo, hi| {
        let k = (lo / chunk.max(1)).wrapping_mul(0x9E37_79B9) >> 7;
        let a = 1 + k % 7;
        let b = 1 + (k / 7) % 11;
        if hi - lo > a + b + 1 {
            f(acc, lo, lo + a);
            f(acc, lo + a, hi - b);
            f(acc, hi - b, hi);
        } else {
            f(acc, lo, hi);
        }
    })
}

/// Final report of one check run in one build configuration.
pub struct Report {
    pub property: String,
    pub acc: Acc,
    pub bound: String,
    pub exhaustive: bool,
    pub rule: String,
    pub assumptions: Vec<String>,
    pub extra: BTreeMap<String, Value>,
    /// vacuity guards: (name, satisfied)
    pub guards: Vec<(String, bool)>,
}

impl Report {
    pub fn new(property: &str) -> Self {
        Report {
            property: property.to_string(),
            acc: Acc::default(),
            bound: String::new(),
            exhaustive: false,
            rule: String::new(),
            assumptions: vec![],
            extra: BTreeMap::new(),
            guards: vec![],
        }
    }
    pub fn guard(&mut self, name: &str, ok: bool) {
        self.guards.push((name.to_string(), ok));
    }
    pub fn guard_bucket(&mut self, name: &str) {
        let ok = self.acc.buckets.get(name).copied().unwrap_or(0) > 0;
        self.guards.push((format!("bucket '{name}' populated"), ok));
    }
    pub fn to_json(&self) -> Value {
        let worst: BTreeMap<_, _> = self
            .acc
            .worst
            .iter()
            .map(|(k, v)| (k.clone(), json!({"value": fnum(v.0), "case": v.1})))
            .collect();
        let viols: Vec<Value> = self
            .acc
            .viols
            .values()
            .map(|v| json!({"key": v.key, "detail": v.detail, "case": v.case, "index": v.index}))
            .collect();
        json!({
            "property": self.property,
            "states": self.acc.states,
            "transitions": self.acc.transitions,
            "buckets": self.acc.buckets,
            "worst": worst,
            "samples": self.acc.samples,
            "violations": viols,
            "bound": self.bound,
            "exhaustive": self.exhaustive,
            "rule": self.rule,
            "assumptions": self.assumptions,
            "extra": self.extra,
            "guards": self.guards.iter().map(|(n, ok)| json!({"name": n, "ok": ok})).collect::<Vec<_>>(),
        })
    }
}

/// JSON cannot carry NaN/inf; encode them as strings.
pub fn fnum(v: f64) -> Value {
    if v.is_finite() {
        json!(v)
    } else {
        json!(format!("{v}"))
    }
}

/// f32 as exact, replayable JSON: bit pattern plus a readable rendering.
pub fn f32j(v: f32) -> Value {
    json!({"bits": v.to_bits(), "val": format!("{v:e}")})
}
pub fn px3j(p: [f32; 3]) -> Value {
    json!([p[0].to_bits(), p[1].to_bits(), p[2].to_bits()])
}
pub fn px3_from(v: &Value) -> [f32; 3] {
    let a = v.as_array().expect("pixel array");
    [
        f32::from_bits(a[0].as_u64().unwrap() as u32),
        f32::from_bits(a[1].as_u64().unwrap() as u32),
        f32::from_bits(a[2].as_u64().unwrap() as u32),
    ]
}
pub fn px3s(p: [f32; 3]) -> String {
    format!("[{:e}, {:e}, {:e}]", p[0], p[1], p[2])
}

// ---------------------------------------------------------------------------------------------
// panic capture

use std::cell::RefCell;
thread_local! {
    static LAST_PANIC: RefCell<Option<String>> = const { RefCell::new(None) };
    static GUARD_DEPTH: std::cell::Cell<u32> = const { std::cell::Cell::new(0) };
}

static UNGUARDED: Mutex<Option<String>> = Mutex::new(None);
/// First panic that happened outside `guarded` (if any).
pub fn unguarded_panic() -> Option<String> {
    UNGUARDED.lock().unwrap_or_else(|e| e.into_inner()).clone()
}

/// The panic hook is process-wide; threads spawned by checks need nothing extra.
pub fn install_panic_hook_thread() {}

pub fn install_panic_hook() {
    std::panic::set_hook(Box::new(|info| {
        let msg = if let Some(s) = info.payload().downcast_ref::<&str>() {
            (*s).to_string()
        } else if let Some(s) = info.payload().downcast_ref::<String>() {
            s.clone()
        } else {
            "<non-string panic>".to_string()
        };
        let loc = info.location().map(|l| format!("{}:{}", l.file(), l.line())).unwrap_or_default();
        if ["unsafe precondition", "misaligned pointer dereference", "null pointer dereference"].iter().any(|w| msg.contains(w)) {
            // std's debug-assertion checks of unsafe preconditions panic without unwinding: the process is
            // about to abort and this message is the only trace of why, keep it on stderr for the parent
            eprintln!("NON-UNWINDING PANIC: {msg} @ {loc}");
        }
        if GUARD_DEPTH.with(|g| g.get()) == 0 {
            // a panic outside any guarded subject call: either the harness itself, or the library
            // panicking in a call the harness did not expect to fail. Make it visible and keep it.
            eprintln!("UNGUARDED PANIC: {msg} @ {loc}");
            let mut g = UNGUARDED.lock().unwrap_or_else(|e| e.into_inner());
            if g.is_none() {
                *g = Some(format!("{msg} @ {loc}"));
            }
        }
        LAST_PANIC.with(|p| *p.borrow_mut() = Some(format!("{msg} @ {loc}")));
    }));
}

/// Run `f`, catching unwinding panics; Err carries "message @ file:line".
pub fn guarded<R>(f: impl FnOnce() -> R) -> Result<R, String> {
    GUARD_DEPTH.with(|g| g.set(g.get() + 1));
    let r = std::panic::catch_unwind(std::panic::AssertUnwindSafe(f));
    GUARD_DEPTH.with(|g| g.set(g.get() - 1));
    match r {
        Ok(r) => Ok(r),
        Err(_) => Err(LAST_PANIC.with(|p| p.borrow_mut().take()).unwrap_or_else(|| "<panic>".into())),
    }
}

/// Classify a panic message into a stable site label (hook sites keep their own name).
pub fn panic_site(msg: &str) -> String {
    if let Some(i) = msg.find("VERIF-HOOK site=") {
        let rest = &msg[i + "VERIF-HOOK site=".len()..];
        let end = rest.find(' ').unwrap_or(rest.len());
        return format!("hook:{}", &rest[..end]);
    }
    // strip numbers so that the key is a class; keep the source file (not the line) of the panic
    let (head, loc) = match msg.rfind(" @ ") {
        Some(i) => (&msg[..i], &msg[i + 3..]),
        None => (msg, ""),
    };
    let mut h = String::new();
    for c in head.chars() {
        let c = if c.is_ascii_digit() { '#' } else if c == ' ' { '_' } else { c };
        if c == '#' && h.ends_with('#') {
            continue;
        }
        h.push(c);
        if h.len() >= 56 {
            break;
        }
    }
    let file = loc.rsplit('/').next().unwrap_or(loc);
    let file = file.split(':').next().unwrap_or(file);
    format!("panic:{h}@{file}")
}

// ---------------------------------------------------------------------------------------------
// child-process isolation for sweeps that may abort the process (UB checks, heap corruption)

impl Acc {
    pub fn to_json(&self) -> Value {
        json!({
            "states": self.states,
            "transitions": self.transitions,
            "buckets": self.buckets,
            "worst": self.worst.iter().map(|(k, v)| (k.clone(), json!([fnum(v.0), v.1]))).collect::<BTreeMap<_, _>>(),
            "viols": self.viols.values().map(|v| json!({"key": v.key, "detail": v.detail, "case": v.case, "index": v.index})).collect::<Vec<_>>(),
            "samples": self.samples,
        })
    }
    pub fn from_json(v: &Value) -> Acc {
        let mut a = Acc::default();
        a.states = v["states"].as_u64().unwrap_or(0);
        a.transitions = v["transitions"].as_u64().unwrap_or(0);
        if let Some(b) = v["buckets"].as_object() {
            for (k, n) in b {
                a.buckets.insert(k.clone(), n.as_u64().unwrap_or(0));
            }
        }
        if let Some(w) = v["worst"].as_object() {
            for (k, e) in w {
                let val = e[0].as_f64().unwrap_or_else(|| e[0].as_str().and_then(|s| s.parse().ok()).unwrap_or(f64::NAN));
                a.worst.insert(k.clone(), (val, e[1].clone()));
            }
        }
        if let Some(vs) = v["viols"].as_array() {
            for x in vs {
                let key = x["key"].as_str().unwrap().to_string();
                a.viols.insert(key.clone(), Violation { key, detail: x["detail"].as_str().unwrap().to_string(), case: x["case"].clone(), index: x["index"].as_u64().unwrap() });
            }
        }
        if let Some(s) = v["samples"].as_array() {
            a.samples = s.clone();
        }
        a
    }
}

pub struct Staged {
    pub property: &'static str,
    /// (stage name, number of cases)
    pub stages: Vec<(String, u64)>,
    /// run cases [lo,hi) of a stage (may use all cores); index offsets are global per stage
    pub run: fn(Tier, usize, u64, u64) -> Acc,
    /// replayable description of one case
    pub case_of: fn(Tier, usize, u64) -> Value,
}

/// Why a child died: evidence of undefined behaviour in the code under test (the harness is
/// safe Rust), or a resource problem of the machinery.
fn classify_death(status: &std::process::ExitStatus, stderr_tail: &str) -> (bool, String) {
    use std::os::unix::process::ExitStatusExt;
    let sig = status.signal();
    let t = stderr_tail.to_lowercase();
    let ub_words = ["free()", "malloc", "corrupt", "double free", "unsafe precondition", "munmap_chunk", "realloc()", "invalid pointer", "invalid size", "stack smashing", "misaligned"];
    let resource = t.contains("memory allocation of") || sig == Some(9);
    let ub = !resource && (sig == Some(11) || sig == Some(7) || sig == Some(4) || (sig == Some(6) && ub_words.iter().any(|w| t.contains(w))) || ub_words.iter().any(|w| t.contains(w)));
    let last = stderr_tail.lines().rev().find(|l| !l.trim().is_empty()).unwrap_or("").trim().to_string();
    (ub, format!("{status}; stderr: {}", last.chars().take(160).collect::<String>()))
}

pub enum ChildDeath {
    /// died in a way that indicates UB in the subject
    Ub(String),
    /// died for a machinery reason (OOM kill, allocation failure, spawn failure, bad report)
    Machinery(String),
}

fn spawn_child(property: &str, tier: Tier, stage: usize, lo: u64, hi: u64) -> Result<Acc, ChildDeath> {
    let exe = std::env::current_exe().expect("current_exe");
    let scratch = std::env::var("MC_SCRATCH").map(std::path::PathBuf::from).unwrap_or_else(|_| std::env::temp_dir());
    let out = scratch.join(format!("mc-child-{}-{}-{}-{}-{}.json", std::process::id(), property, stage, lo, hi));
    let _ = std::fs::remove_file(&out);
    let output = std::process::Command::new(exe)
        .args(["child", property, tier.name(), &stage.to_string(), &lo.to_string(), &hi.to_string()])
        .arg(&out)
        .stdout(std::process::Stdio::null())
        .stderr(std::process::Stdio::piped())
        .output()
        .map_err(|e| ChildDeath::Machinery(format!("spawn failed: {e}")))?;
    let res = if output.status.success() {
        std::fs::read_to_string(&out)
            .map_err(|e| format!("child report unreadable: {e}"))
            .and_then(|s| serde_json::from_str::<Value>(&s).map_err(|e| format!("child report unparsable: {e}")))
            .map(|v| Acc::from_json(&v))
            .map_err(ChildDeath::Machinery)
    } else {
        let err = String::from_utf8_lossy(&output.stderr);
        let tail: String = err.chars().rev().take(4000).collect::<String>().chars().rev().collect();
        let (ub, why) = classify_death(&output.status, &tail);
        Err(if ub { ChildDeath::Ub(why) } else { ChildDeath::Machinery(why) })
    };
    let _ = std::fs::remove_file(&out);
    res
}

/// Run every stage in a child process. A child that dies with evidence of undefined behaviour is
/// bisected towards the first single case that kills a child; that case (or, if the death does not
/// localise — typical for heap corruption detected later by the allocator — the smallest dying
/// range) is reported as a violation with key `process-abort ...`.
pub fn run_staged(tier: Tier, st: &Staged, rep: &mut Report) {
    for (si, (name, total)) in st.stages.iter().enumerate() {
        match spawn_child(st.property, tier, si, 0, *total) {
            Ok(acc) => rep.acc.merge(acc),
            Err(ChildDeath::Machinery(why)) => {
                rep.guard(&format!("stage '{name}': child failed for a machinery reason ({why})"), false);
            }
            Err(ChildDeath::Ub(first)) => {
                let (mut lo, mut hi) = (0u64, *total);
                let mut last = first;
                while hi - lo > 1 {
                    let mid = lo + (hi - lo) / 2;
                    match spawn_child(st.property, tier, si, lo, mid) {
                        Err(ChildDeath::Ub(e)) => {
                            hi = mid;
                            last = e;
                        }
                        _ => match spawn_child(st.property, tier, si, mid, hi) {
                            Err(ChildDeath::Ub(e)) => {
                                lo = mid;
                                last = e;
                            }
                            _ => break, // neither half dies alone: report the range
                        },
                    }
                }
                let stage_key = name.replace(' ', "_");
                if hi - lo == 1 {
                    let mut case = (st.case_of)(tier, si, lo);
                    case["expect_death"] = json!(true);
                    rep.acc.violation(lo, format!("process-abort stage={stage_key}"), format!("the process running case {lo} of stage '{name}' died: {last}"), case);
                } else {
                    rep.acc.violation(
                        lo,
                        format!("process-abort stage={stage_key} (range)"),
                        format!("the process running cases [{lo},{hi}) of stage '{name}' died: {last}"),
                        json!({"kind":"range","property":st.property,"tier":tier.name(),"stage":si,"lo":lo,"hi":hi,"expect_death":true}),
                    );
                }
                rep.acc.bucket("child process died (undefined behaviour in the subject)", 1);
            }
        }
    }
}

/// Entry point of `mc child ...`.
pub fn child_main(st: &Staged, tier: Tier, stage: usize, lo: u64, hi: u64, out: &str) {
    let acc = (st.run)(tier, stage, lo, hi);
    std::fs::write(out, serde_json::to_string(&acc.to_json()).unwrap()).expect("write child report");
}
