//! Independent f64 reference models, written from the standards (ITU-T H.273, BT.2100,
//! IEC 61966-2-1, libjxl opsin constants as quoted in property C04, textbook hexcone,
//! CIE / Bradford). Shares no code and no constants with the library under test.

#![allow(clippy::excessive_precision)]

use yuvxyb::{ColorPrimaries as CP, MatrixCoefficients as MC, TransferCharacteristic as TC};

pub type M3 = [[f64; 3]; 3];
pub type V3 = [f64; 3];

// ------------------------------------------------------------------------------------------------
// enumerations of the metadata alphabets (by H.273 code point, independent of the crate's tables)

pub const STD_MATRICES: [MC; 7] = [
    MC::BT709,
    MC::BT470M,
    MC::BT470BG,
    MC::ST170M,
    MC::ST240M,
    MC::BT2020NonConstantLuminance,
    MC::YCgCo,
];

pub const ALL_MATRICES: [MC; 15] = [
    MC::Identity,
    MC::BT709,
    MC::Unspecified,
    MC::Reserved,
    MC::BT470M,
    MC::BT470BG,
    MC::ST170M,
    MC::ST240M,
    MC::YCgCo,
    MC::BT2020NonConstantLuminance,
    MC::BT2020ConstantLuminance,
    MC::ST2085,
    MC::ChromaticityDerivedNonConstantLuminance,
    MC::ChromaticityDerivedConstantLuminance,
    MC::ICtCp,
];

pub const ALL_PRIMARIES: [CP; 14] = [
    CP::Reserved0,
    CP::BT709,
    CP::Unspecified,
    CP::Reserved,
    CP::BT470M,
    CP::BT470BG,
    CP::ST170M,
    CP::ST240M,
    CP::Film,
    CP::BT2020,
    CP::ST428,
    CP::P3DCI,
    CP::P3Display,
    CP::Tech3213,
];

pub const SUPPORTED_PRIMARIES: [CP; 11] = [
    CP::BT709,
    CP::BT470M,
    CP::BT470BG,
    CP::ST170M,
    CP::ST240M,
    CP::Film,
    CP::BT2020,
    CP::ST428,
    CP::P3DCI,
    CP::P3Display,
    CP::Tech3213,
];

pub const ALL_TRANSFERS: [TC; 19] = [
    TC::Reserved0,
    TC::BT1886,
    TC::Unspecified,
    TC::Reserved,
    TC::BT470M,
    TC::BT470BG,
    TC::ST170M,
    TC::ST240M,
    TC::Linear,
    TC::Logarithmic100,
    TC::Logarithmic316,
    TC::XVYCC,
    TC::BT1361E,
    TC::SRGB,
    TC::BT2020Ten,
    TC::BT2020Twelve,
    TC::PerceptualQuantizer,
    TC::ST428,
    TC::HybridLogGamma,
];

pub const SUPPORTED_TRANSFERS: [TC; 14] = [
    TC::BT1886,
    TC::ST170M,
    TC::ST240M,
    TC::BT2020Ten,
    TC::BT2020Twelve,
    TC::BT470M,
    TC::BT470BG,
    TC::SRGB,
    TC::XVYCC,
    TC::Logarithmic100,
    TC::Logarithmic316,
    TC::PerceptualQuantizer,
    TC::HybridLogGamma,
    TC::Linear,
];

pub fn mc_name(m: MC) -> String {
    format!("{m:?}")
}
pub fn mc_from_name(s: &str) -> MC {
    *ALL_MATRICES.iter().find(|m| format!("{m:?}") == s).unwrap_or_else(|| panic!("bad matrix {s}"))
}
pub fn cp_from_name(s: &str) -> CP {
    *ALL_PRIMARIES.iter().find(|m| format!("{m:?}") == s).unwrap_or_else(|| panic!("bad primaries {s}"))
}
pub fn tc_from_name(s: &str) -> TC {
    *ALL_TRANSFERS.iter().find(|m| format!("{m:?}") == s).unwrap_or_else(|| panic!("bad transfer {s}"))
}

// ------------------------------------------------------------------------------------------------
// 3x3 algebra in f64

pub fn m3_mul(a: &M3, b: &M3) -> M3 {
    let mut o = [[0.0; 3]; 3];
    for i in 0..3 {
        for j in 0..3 {
            o[i][j] = a[i][0] * b[0][j] + a[i][1] * b[1][j] + a[i][2] * b[2][j];
        }
    }
    o
}
pub fn m3_vec(a: &M3, v: V3) -> V3 {
    [
        a[0][0] * v[0] + a[0][1] * v[1] + a[0][2] * v[2],
        a[1][0] * v[0] + a[1][1] * v[1] + a[1][2] * v[2],
        a[2][0] * v[0] + a[2][1] * v[1] + a[2][2] * v[2],
    ]
}
pub fn m3_det(a: &M3) -> f64 {
    a[0][0] * (a[1][1] * a[2][2] - a[1][2] * a[2][1]) - a[0][1] * (a[1][0] * a[2][2] - a[1][2] * a[2][0])
        + a[0][2] * (a[1][0] * a[2][1] - a[1][1] * a[2][0])
}
pub fn m3_inv(a: &M3) -> M3 {
    let d = m3_det(a);
    let mut o = [[0.0; 3]; 3];
    for i in 0..3 {
        for j in 0..3 {
            // cofactor of (j,i)
            let (r0, r1) = match j {
                0 => (1, 2),
                1 => (0, 2),
                _ => (0, 1),
            };
            let (c0, c1) = match i {
                0 => (1, 2),
                1 => (0, 2),
                _ => (0, 1),
            };
            let minor = a[r0][c0] * a[r1][c1] - a[r0][c1] * a[r1][c0];
            let sign = if (i + j) % 2 == 0 { 1.0 } else { -1.0 };
            o[i][j] = sign * minor / d;
        }
    }
    o
}
pub const I3: M3 = [[1.0, 0.0, 0.0], [0.0, 1.0, 0.0], [0.0, 0.0, 1.0]];

// ------------------------------------------------------------------------------------------------
// H.273 matrix coefficients (Table 4)

/// Kr, Kb of the standard non-constant-luminance systems; None for YCgCo (own equations).
pub fn kr_kb(m: MC) -> Option<(f64, f64)> {
    Some(match m {
        MC::BT709 => (0.2126, 0.0722),
        MC::BT470M => (0.30, 0.11),
        MC::BT470BG | MC::ST170M => (0.299, 0.114),
        MC::ST240M => (0.212, 0.087),
        MC::BT2020NonConstantLuminance => (0.2627, 0.0593),
        _ => return None,
    })
}

/// Normalised (Y', Cb, Cr) -> (R', G', B') per H.273 equations.
pub fn ypbpr_to_rgb(m: MC, y: f64, cb: f64, cr: f64) -> V3 {
    if m == MC::YCgCo {
        // H.273 eqs for MatrixCoefficients = 8: Cb carries Cg, Cr carries Co.
        let t = y - cb;
        return [t + cr, y + cb, t - cr];
    }
    let (kr, kb) = kr_kb(m).expect("standard matrix");
    let kg = 1.0 - kr - kb;
    let r = y + 2.0 * (1.0 - kr) * cr;
    let b = y + 2.0 * (1.0 - kb) * cb;
    let g = (y - kr * r - kb * b) / kg;
    [r, g, b]
}

/// (R', G', B') -> real-valued (Y', Cb, Cr).
pub fn rgb_to_ypbpr(m: MC, rgb: V3) -> V3 {
    let [r, g, b] = rgb;
    if m == MC::YCgCo {
        return [0.5 * g + 0.25 * (r + b), 0.5 * g - 0.25 * (r + b), 0.5 * (r - b)];
    }
    let (kr, kb) = kr_kb(m).expect("standard matrix");
    let kg = 1.0 - kr - kb;
    let y = kr * r + kg * g + kb * b;
    [y, (b - y) / (2.0 * (1.0 - kb)), (r - y) / (2.0 * (1.0 - kr))]
}

/// Code -> normalised value, with the clamp the property states.
pub fn norm_luma(code: u32, n: u32, full: bool) -> f64 {
    let v = if full {
        code as f64 / ((1u64 << n) - 1) as f64
    } else {
        let k = (1u64 << (n - 8)) as f64;
        (code as f64 - 16.0 * k) / (219.0 * k)
    };
    v.clamp(0.0, 1.0)
}
pub fn norm_chroma(code: u32, n: u32, full: bool) -> f64 {
    let v = if full {
        (code as f64 - (1u64 << (n - 1)) as f64) / ((1u64 << n) - 1) as f64
    } else {
        let k = (1u64 << (n - 8)) as f64;
        (code as f64 - 128.0 * k) / (224.0 * k)
    };
    v.clamp(-0.5, 0.5)
}
/// Real-valued quantisation (before rounding), clamped to the code range.
pub fn quant_luma(y: f64, n: u32, full: bool) -> f64 {
    let max = ((1u64 << n) - 1) as f64;
    let v = if full {
        max * y
    } else {
        let k = (1u64 << (n - 8)) as f64;
        219.0 * k * y + 16.0 * k
    };
    v.clamp(0.0, max)
}
pub fn quant_chroma(c: f64, n: u32, full: bool) -> f64 {
    let max = ((1u64 << n) - 1) as f64;
    let v = if full {
        max * c + (1u64 << (n - 1)) as f64
    } else {
        let k = (1u64 << (n - 8)) as f64;
        224.0 * k * c + 128.0 * k
    };
    v.clamp(0.0, max)
}

// ------------------------------------------------------------------------------------------------
// transfer characteristics (defining formulas, f64)

pub const BT2100_ALPHA: f64 = 1.099;
pub const BT2100_BETA: f64 = 0.018;
pub const BT2100_OOTF_SCALE: f64 = 59.5208;

fn g709(e: f64) -> f64 {
    if e <= BT2100_BETA {
        4.5 * e
    } else {
        BT2100_ALPHA * e.powf(0.45) - (BT2100_ALPHA - 1.0)
    }
}
fn g709_inv(v: f64) -> f64 {
    if v <= 4.5 * BT2100_BETA {
        v / 4.5
    } else {
        ((v + (BT2100_ALPHA - 1.0)) / BT2100_ALPHA).powf(1.0 / 0.45)
    }
}
const PQ_M1: f64 = 2610.0 / 16384.0;
const PQ_M2: f64 = 2523.0 / 4096.0 * 128.0;
const PQ_C1: f64 = 3424.0 / 4096.0;
const PQ_C2: f64 = 2413.0 / 4096.0 * 32.0;
const PQ_C3: f64 = 2392.0 / 4096.0 * 32.0;
/// PQ EOTF, output normalised so that 1.0 = 10000 cd/m2.
fn pq_eotf(e: f64) -> f64 {
    let p = e.powf(1.0 / PQ_M2);
    let num = (p - PQ_C1).max(0.0);
    let den = PQ_C2 - PQ_C3 * p;
    (num / den).powf(1.0 / PQ_M1)
}
fn pq_inv_eotf(y: f64) -> f64 {
    let p = y.powf(PQ_M1);
    ((PQ_C1 + PQ_C2 * p) / (1.0 + PQ_C3 * p)).powf(PQ_M2)
}
const HLG_A: f64 = 0.17883277;
const HLG_B: f64 = 1.0 - 4.0 * HLG_A;
fn hlg_c() -> f64 {
    0.5 - HLG_A * (4.0 * HLG_A).ln()
}

/// gamma-encoded -> linear, x in [0,1]. None for unsupported characteristics.
pub fn tc_to_linear(t: TC, x: f64) -> Option<f64> {
    Some(match t {
        TC::BT1886 | TC::ST170M | TC::ST240M | TC::BT2020Ten | TC::BT2020Twelve | TC::XVYCC => x.powf(2.4),
        TC::BT470M => x.powf(2.2),
        TC::BT470BG => x.powf(2.8),
        TC::SRGB => {
            if x <= 0.04045 {
                x / 12.92
            } else {
                ((x + 0.055) / 1.055).powf(2.4)
            }
        }
        TC::Logarithmic100 => 10f64.powf(2.0 * (x - 1.0)),
        TC::Logarithmic316 => 10f64.powf(2.5 * (x - 1.0)),
        TC::PerceptualQuantizer => {
            // scene light E = OOTF^-1(EOTF_PQ(E')), BT.2100 Table 4 with its own rounded constants
            let fd = pq_eotf(x); // display light / 10000
            g709_inv((100.0 * fd).powf(1.0 / 2.4)) / BT2100_OOTF_SCALE
        }
        TC::HybridLogGamma => {
            if x <= 0.5 {
                x * x / 3.0
            } else {
                (((x - hlg_c()) / HLG_A).exp() + HLG_B) / 12.0
            }
        }
        TC::Linear => x,
        _ => return None,
    })
}

/// linear -> gamma-encoded, x in [0,1].
pub fn tc_to_gamma(t: TC, x: f64) -> Option<f64> {
    Some(match t {
        TC::BT1886 | TC::ST170M | TC::ST240M | TC::BT2020Ten | TC::BT2020Twelve | TC::XVYCC => x.powf(1.0 / 2.4),
        TC::BT470M => x.powf(1.0 / 2.2),
        TC::BT470BG => x.powf(1.0 / 2.8),
        TC::SRGB => {
            if x <= 0.0031308 {
                12.92 * x
            } else {
                1.055 * x.powf(1.0 / 2.4) - 0.055
            }
        }
        TC::Logarithmic100 => {
            if x < 0.01 {
                0.0
            } else {
                1.0 + x.log10() / 2.0
            }
        }
        TC::Logarithmic316 => {
            if x < 10f64.sqrt() / 1000.0 {
                0.0
            } else {
                1.0 + x.log10() / 2.5
            }
        }
        TC::PerceptualQuantizer => {
            // E' = EOTF_PQ^-1(OOTF(E)); OOTF(E) = 100 * G709(59.5208 E)^2.4 cd/m2
            let fd = g709(BT2100_OOTF_SCALE * x).powf(2.4) / 100.0;
            pq_inv_eotf(fd)
        }
        TC::HybridLogGamma => {
            if x <= 1.0 / 12.0 {
                (3.0 * x).sqrt()
            } else {
                HLG_A * (12.0 * x - HLG_B).ln() + hlg_c()
            }
        }
        TC::Linear => x,
        _ => return None,
    })
}

// High-precision reading of the same BT.2100 scene-referred PQ curve (BT.2390 5.3.1): alpha and
// beta chosen for continuity of the BT.709 OETF, and the OOTF scale derived from alpha so that
// E = 1 still maps to 10000 cd/m2. Both readings are self-consistent forms of the definition.
pub const HP_ALPHA: f64 = 1.09929682680944;
pub const HP_BETA: f64 = 0.018053968510807;
pub fn hp_ootf_scale() -> f64 {
    ((100f64.powf(1.0 / 2.4) + HP_ALPHA - 1.0) / HP_ALPHA).powf(1.0 / 0.45)
}
pub fn pq_to_linear_hp(x: f64) -> f64 {
    let fd = pq_eotf(x);
    let v = (100.0 * fd).powf(1.0 / 2.4);
    let e = if v <= 4.5 * HP_BETA { v / 4.5 } else { ((v + (HP_ALPHA - 1.0)) / HP_ALPHA).powf(1.0 / 0.45) };
    e / hp_ootf_scale()
}
pub fn pq_to_gamma_hp(x: f64) -> f64 {
    let e = hp_ootf_scale() * x;
    let g = if e <= HP_BETA { 4.5 * e } else { HP_ALPHA * e.powf(0.45) - (HP_ALPHA - 1.0) };
    pq_inv_eotf(g.powf(2.4) / 100.0)
}

/// Budget of C03/C10 for a characteristic and direction.
pub fn tc_budget(t: TC, to_gamma: bool) -> f64 {
    if t == TC::PerceptualQuantizer && to_gamma {
        5.7e-4
    } else {
        2.5e-4
    }
}

// ------------------------------------------------------------------------------------------------
// colour primaries (H.273 Table 2) and Bradford adaptation

pub const WHITE_D65: [f64; 2] = [0.3127, 0.3290];
pub const WHITE_C: [f64; 2] = [0.310, 0.316];
pub const WHITE_DCI: [f64; 2] = [0.314, 0.351];
pub const WHITE_E: [f64; 2] = [1.0 / 3.0, 1.0 / 3.0];

/// (R, G, B chromaticities, white). None for unsupported values. ST 428 is the CIE XYZ encoding.
pub fn primaries_xy(p: CP) -> Option<([[f64; 2]; 3], [f64; 2])> {
    Some(match p {
        CP::BT709 => ([[0.640, 0.330], [0.300, 0.600], [0.150, 0.060]], WHITE_D65),
        CP::BT470M => ([[0.67, 0.33], [0.21, 0.71], [0.14, 0.08]], WHITE_C),
        CP::BT470BG => ([[0.64, 0.33], [0.29, 0.60], [0.15, 0.06]], WHITE_D65),
        CP::ST170M | CP::ST240M => ([[0.630, 0.340], [0.310, 0.595], [0.155, 0.070]], WHITE_D65),
        CP::Film => ([[0.681, 0.319], [0.243, 0.692], [0.145, 0.049]], WHITE_C),
        CP::BT2020 => ([[0.708, 0.292], [0.170, 0.797], [0.131, 0.046]], WHITE_D65),
        CP::ST428 => ([[1.0, 0.0], [0.0, 1.0], [0.0, 0.0]], WHITE_E),
        CP::P3DCI => ([[0.680, 0.320], [0.265, 0.690], [0.150, 0.060]], WHITE_DCI),
        CP::P3Display => ([[0.680, 0.320], [0.265, 0.690], [0.150, 0.060]], WHITE_D65),
        CP::Tech3213 => ([[0.630, 0.340], [0.295, 0.605], [0.155, 0.077]], WHITE_D65),
        _ => return None,
    })
}

fn xy_to_xyz(c: [f64; 2]) -> V3 {
    [c[0] / c[1], 1.0, (1.0 - c[0] - c[1]) / c[1]]
}

/// RGB -> XYZ matrix of a primaries set (normalised so that RGB (1,1,1) maps to the white point).
pub fn rgb_to_xyz(p: CP) -> Option<M3> {
    if p == CP::ST428 {
        // the "RGB" channels are X, Y, Z themselves
        return Some(I3);
    }
    let (prim, white) = primaries_xy(p)?;
    let cols = [xy_to_xyz(prim[0]), xy_to_xyz(prim[1]), xy_to_xyz(prim[2])];
    let m: M3 = [
        [cols[0][0], cols[1][0], cols[2][0]],
        [cols[0][1], cols[1][1], cols[2][1]],
        [cols[0][2], cols[1][2], cols[2][2]],
    ];
    let s = m3_vec(&m3_inv(&m), xy_to_xyz(white));
    let mut o = m;
    for r in 0..3 {
        for c in 0..3 {
            o[r][c] = m[r][c] * s[c];
        }
    }
    Some(o)
}

pub fn white_xyz(p: CP) -> Option<V3> {
    primaries_xy(p).map(|(_, w)| xy_to_xyz(w))
}

pub const BRADFORD: M3 = [[0.8951, 0.2664, -0.1614], [-0.7502, 1.7135, 0.0367], [0.0389, -0.0685, 1.0296]];

pub fn bradford_adapt(w_in: V3, w_out: V3) -> M3 {
    let a = m3_vec(&BRADFORD, w_in);
    let b = m3_vec(&BRADFORD, w_out);
    let d: M3 = [[b[0] / a[0], 0.0, 0.0], [0.0, b[1] / a[1], 0.0], [0.0, 0.0, b[2] / a[2]]];
    m3_mul(&m3_inv(&BRADFORD), &m3_mul(&d, &BRADFORD))
}

/// Linear RGB in `from` primaries -> linear RGB in `to` primaries.
pub fn primaries_matrix(from: CP, to: CP) -> Option<M3> {
    let m_in = rgb_to_xyz(from)?;
    let m_out = rgb_to_xyz(to)?;
    let ad = bradford_adapt(white_xyz(from)?, white_xyz(to)?);
    Some(m3_mul(&m3_inv(&m_out), &m3_mul(&ad, &m_in)))
}

// ------------------------------------------------------------------------------------------------
// XYB (constants exactly as quoted in property C04)

pub const OPSIN: M3 = [
    [0.30, 0.622, 0.078],
    [0.23, 0.692, 0.078],
    [0.24342268924547819, 0.20476744424496821, 0.55180986650955360],
];
pub const OPSIN_BIAS: f64 = 0.0037930732552754493;

pub fn opsin_mix(rgb: V3) -> V3 {
    let m = m3_vec(&OPSIN, rgb);
    [m[0] + OPSIN_BIAS, m[1] + OPSIN_BIAS, m[2] + OPSIN_BIAS]
}

pub fn lrgb_to_xyb(rgb: V3) -> V3 {
    let mix = opsin_mix(rgb);
    let cb = OPSIN_BIAS.cbrt();
    let l = mix[0].max(0.0).cbrt() - cb;
    let m = mix[1].max(0.0).cbrt() - cb;
    let s = mix[2].max(0.0).cbrt() - cb;
    [(l - m) / 2.0, (l + m) / 2.0, s]
}

// ------------------------------------------------------------------------------------------------
// hexcone HSL

/// Returns (H in [0,360), S, L, chroma).
pub fn hexcone_hsl(rgb: V3) -> (f64, f64, f64, f64) {
    let [r, g, b] = rgb;
    let max = r.max(g).max(b);
    let min = r.min(g).min(b);
    let c = max - min;
    let l = (max + min) / 2.0;
    let h = if c == 0.0 {
        0.0
    } else if max == r {
        60.0 * (((g - b) / c).rem_euclid(6.0))
    } else if max == g {
        60.0 * ((b - r) / c + 2.0)
    } else {
        60.0 * ((r - g) / c + 4.0)
    };
    let s = if l == 0.0 || l == 1.0 { 0.0 } else { c / (1.0 - (2.0 * l - 1.0).abs()) };
    (h.rem_euclid(360.0), s, l, c)
}

pub fn hexcone_rgb(h: f64, s: f64, l: f64) -> V3 {
    let c = (1.0 - (2.0 * l - 1.0).abs()) * s;
    let hp = h.rem_euclid(360.0) / 60.0;
    let x = c * (1.0 - (hp % 2.0 - 1.0).abs());
    let (r, g, b) = match hp as u32 {
        0 => (c, x, 0.0),
        1 => (x, c, 0.0),
        2 => (0.0, c, x),
        3 => (0.0, x, c),
        4 => (x, 0.0, c),
        _ => (c, 0.0, x),
    };
    let m = l - c / 2.0;
    [r + m, g + m, b + m]
}

// ------------------------------------------------------------------------------------------------
// mpv heuristic for Unspecified metadata (documented in property C15)

pub fn guess_matrix(w: usize, h: usize) -> MC {
    if w >= 1280 || h > 576 {
        MC::BT709
    } else if h == 576 {
        MC::BT470BG
    } else {
        MC::ST170M
    }
}
pub fn guess_primaries(resolved_matrix: MC, w: usize, h: usize) -> CP {
    if matches!(resolved_matrix, MC::BT2020NonConstantLuminance | MC::BT2020ConstantLuminance) {
        CP::BT2020
    } else if resolved_matrix == MC::BT709 || w >= 1280 || h > 576 {
        CP::BT709
    } else if h == 576 {
        CP::BT470BG
    } else if h == 480 || h == 488 {
        CP::ST170M
    } else {
        CP::BT709
    }
}
