//! Helpers to build images through the *public* constructors only, and shared finite alphabets.

use yuvxyb::{
    ColorPrimaries as CP, Frame, MatrixCoefficients as MC, Pixel, Plane, TransferCharacteristic as TC, Yuv, YuvConfig,
};

/// The transfer / primaries labels a stream with this matrix normally carries (the standard's own
/// companions): configurations are labelled the way real ones are, so that a shortcut keyed on
/// "matrix and primaries belong together" is on the path of the accuracy checks. That the labels
/// do not influence YUV<->RGB at all is C14's clause and is checked there over all label pairs.
pub fn natural_labels(m: MC) -> (TC, CP) {
    match m {
        MC::BT470M => (TC::BT470M, CP::BT470M),
        MC::BT470BG => (TC::BT470BG, CP::BT470BG),
        MC::ST170M => (TC::ST170M, CP::ST170M),
        MC::ST240M => (TC::ST240M, CP::ST240M),
        MC::BT2020NonConstantLuminance | MC::BT2020ConstantLuminance => (TC::BT2020Ten, CP::BT2020),
        MC::YCgCo => (TC::SRGB, CP::BT709),
        _ => (TC::BT1886, CP::BT709),
    }
}

/// Labels of the 140 accuracy configurations: the matrix's own companions for half of them, plain
/// BT.1886 / BT.709 for the other half, alternating with depth and range so that every (matrix,
/// range) pair meets both - a shortcut keyed on "matrix and primaries belong together" and one keyed
/// on "they do not" are both on the path of C01 / C02 / C08.
pub fn labels_for(n: u8, full: bool, m: MC) -> (TC, CP) {
    if (n as u32 + full as u32) % 2 == 0 {
        natural_labels(m)
    } else {
        (TC::BT1886, CP::BT709)
    }
}

pub fn cfg444(n: u8, full: bool, m: MC) -> YuvConfig {
    let (t, p) = labels_for(n, full, m);
    YuvConfig {
        bit_depth: n,
        subsampling_x: 0,
        subsampling_y: 0,
        full_range: full,
        matrix_coefficients: m,
        transfer_characteristics: t,
        color_primaries: p,
    }
}

pub fn cfg_full(n: u8, full: bool, ss: (u8, u8), m: MC, t: TC, p: CP) -> YuvConfig {
    YuvConfig {
        bit_depth: n,
        subsampling_x: ss.0,
        subsampling_y: ss.1,
        full_range: full,
        matrix_coefficients: m,
        transfer_characteristics: t,
        color_primaries: p,
    }
}

thread_local! {
    static SHAPE_OVERRIDE: std::cell::Cell<Option<(usize, usize)>> = const { std::cell::Cell::new(None) };
}
/// Run `f` with a fixed image shape for batches of exactly `w*h` pixels (replay / minimisation).
pub fn with_shape<R>(shape: (usize, usize), f: impl FnOnce() -> R) -> R {
    let prev = SHAPE_OVERRIDE.with(|s| s.replace(Some(shape)));
    let r = f();
    SHAPE_OVERRIDE.with(|s| s.set(prev));
    r
}

/// Shapes tried, smallest first, when a violation does not reproduce on a 1x1 image.
pub const SMALL_SHAPES: [(usize, usize); 14] = [(1, 1), (1, 2), (2, 1), (1, 3), (3, 1), (2, 2), (1, 4), (4, 1), (1, 5), (2, 3), (3, 3), (1, 7), (7, 1), (2, 4)];

/// Post-process the violations a batch check just recorded (indices in `[base, base+n)`): find the
/// smallest image that still shows the violation — the single pixel, else the pixel replicated into
/// a small shape, else the whole batch in its original shape — and store it in the replay case
/// (`shape`, and `batch` when replication is not enough). `per_pixel` items make one pixel.
pub fn refine_violations<I: Clone>(
    acc: &mut crate::explore::Acc,
    base: u64,
    items: &[I],
    per_pixel: usize,
    run: &dyn Fn(&mut crate::explore::Acc, &[I]),
    to_json: &dyn Fn(&[I]) -> serde_json::Value,
) {
    let n = items.len() as u64;
    let keys: Vec<String> = acc
        .viols
        .iter()
        .filter(|(_, v)| v.index >= base && v.index < base + n && v.case.get("shape").is_none())
        .map(|(k, _)| k.clone())
        .collect();
    for k in keys {
        let i = ((acc.viols[&k].index - base) as usize / per_pixel) * per_pixel;
        let one: Vec<I> = items[i..(i + per_pixel).min(items.len())].to_vec();
        let mut found = None;
        for &(w, h) in SMALL_SHAPES.iter() {
            let mut rep: Vec<I> = Vec::with_capacity(w * h * per_pixel);
            for _ in 0..w * h {
                rep.extend(one.iter().cloned());
            }
            let mut scratch = crate::explore::Acc::default();
            with_shape((w, h), || run(&mut scratch, &rep));
            if scratch.viols.contains_key(&k) {
                found = Some((w, h));
                break;
            }
        }
        let v = acc.viols.get_mut(&k).unwrap();
        match found {
            Some((w, h)) => {
                v.case["shape"] = serde_json::json!([w, h]);
                if (w, h) != (1, 1) {
                    v.detail = format!("{} [pixel replicated into a {w}x{h} image]", v.detail);
                }
            }
            None => {
                let npx = (items.len() + per_pixel - 1) / per_pixel;
                let (w, h) = shape_of(npx);
                v.case["shape"] = serde_json::json!([w, h]);
                v.case["batch"] = to_json(items);
                v.detail = format!("{} [needs its whole {w}x{h} batch image to show]", v.detail);
            }
        }
    }
}

/// "Echo pair" check for in-place, pixel-by-pixel conversions: the image [p0, f(p0), p1, f(p1), ..]
/// — every pixel followed by a pixel equal to its own converted value — must convert pixel by
/// pixel exactly like its members do alone. A loop that carries state from one pixel to the next
/// (a "same as the previous pixel" memo whose key is stale or too coarse) is exposed by exactly
/// such neighbours, which a lattice walked in lexicographic order never contains.
/// Metamorphic: no oracle.
pub fn echo_check(
    acc: &mut crate::explore::Acc,
    base: u64,
    what: &str,
    px: &[[f32; 3]],
    conv: &dyn Fn(&[[f32; 3]]) -> Result<Vec<[f32; 3]>, String>,
    kind: &str,
    extra: &serde_json::Value,
) {
    let m = px.len().min(512);
    if m == 0 {
        return;
    }
    let Ok(out) = conv(&px[..m]) else { return };
    if out.len() != m {
        return;
    }
    let bits = |p: [f32; 3]| [p[0].to_bits(), p[1].to_bits(), p[2].to_bits()];
    let mut seq = Vec::with_capacity(2 * m);
    for i in 0..m {
        seq.push(px[i]);
        seq.push(out[i]);
    }
    acc.transitions += (3 * m) as u64;
    let Ok(r) = conv(&seq) else { return };
    if r.len() != 2 * m {
        return;
    }
    for i in 0..m {
        let mut bad = None;
        if bits(r[2 * i]) != bits(out[i]) {
            bad = Some((px[i], if i > 0 { out[i - 1] } else { px[i] }, r[2 * i], out[i]));
        } else if let Ok(single) = conv(&[out[i]]) {
            if single.len() == 1 && bits(r[2 * i + 1]) != bits(single[0]) {
                bad = Some((out[i], px[i], r[2 * i + 1], single[0]));
            }
        }
        if let Some((pixel, prev, got, want)) = bad {
            let mut case = serde_json::json!({"kind": kind, "pair": [crate::explore::px3j(prev), crate::explore::px3j(pixel)]});
            if let Some(o) = extra.as_object() {
                for (k, v) in o {
                    case[k] = v.clone();
                }
            }
            acc.violation(
                base + i as u64,
                format!("{what} not-pointwise (depends on the previous pixel)"),
                format!("pixel {} converts to {} when it follows {}, but to {} on its own", crate::explore::px3s(pixel), crate::explore::px3s(got), crate::explore::px3s(prev), crate::explore::px3s(want)),
                case,
            );
            return;
        }
    }
    acc.bucket(&format!("{what}: echo pairs [p, f(p)] convert like their members alone"), m as u64);
}

/// Replay of an echo-pair case: convert [prev, pixel] and compare the second output with the
/// conversion of [pixel] alone.
pub fn echo_replay(case: &serde_json::Value, conv: &dyn Fn(&[[f32; 3]]) -> Result<Vec<[f32; 3]>, String>) -> (bool, String) {
    let prev = crate::explore::px3_from(&case["pair"][0]);
    let pixel = crate::explore::px3_from(&case["pair"][1]);
    match (conv(&[prev, pixel]), conv(&[pixel])) {
        (Ok(a), Ok(b)) if a.len() == 2 && b.len() == 1 => {
            let same = (0..3).all(|k| a[1][k].to_bits() == b[0][k].to_bits());
            (!same, format!("not-pointwise (depends on the previous pixel) :: {} after {} -> {}, alone -> {}", crate::explore::px3s(pixel), crate::explore::px3s(prev), crate::explore::px3s(a[1]), crate::explore::px3s(b[0])))
        }
        (a, b) => (true, format!("conversion failed: {:?} / {:?}", a.err(), b.err())),
    }
}

/// Replay side of [`refine_violations`]: rebuild the item list and shape stored in a case.
pub fn replay_items<I: Clone>(case: &serde_json::Value, one: Vec<I>, from_json: &dyn Fn(&serde_json::Value) -> Vec<I>) -> (Vec<I>, (usize, usize)) {
    let shape = case.get("shape").and_then(|s| s.as_array()).map(|a| (a[0].as_u64().unwrap() as usize, a[1].as_u64().unwrap() as usize)).unwrap_or((1, 1));
    if let Some(b) = case.get("batch") {
        return (from_json(b), shape);
    }
    let mut v = Vec::new();
    for _ in 0..shape.0 * shape.1 {
        v.extend(one.iter().cloned());
    }
    (v, shape)
}

/// Image shape for a batch of `len` independent pixels. Batches are not always `len x 1` rows:
/// short batches become single columns or two-column images, long ones get 2, 3, 5 or 7 rows when
/// the length allows, so that per-row / per-column code paths (row offsets, "same chroma position
/// as the previous pixel" shortcuts, one-sample-wide planes) are exercised by every batch check.
pub fn shape_of(len: usize) -> (usize, usize) {
    if let Some((w, h)) = SHAPE_OVERRIDE.with(|s| s.get()) {
        if w * h == len {
            return (w, h);
        }
    }
    if len <= 1 {
        return (len.max(1), 1);
    }
    if len == 923_601 {
        return (1281, 721);
    }
    if len <= 11 {
        return match len % 3 {
            0 => (1, len),
            1 => (len, 1),
            _ => {
                if len % 2 == 0 {
                    (2, len / 2)
                } else {
                    (1, len)
                }
            }
        };
    }
    for h in [7usize, 5, 3, 2] {
        if len % h == 0 && (len / h) % 2 == 1 {
            return (len / h, h);
        }
    }
    for h in [3usize, 2, 5, 7] {
        if len % h == 0 {
            return (len / h, h);
        }
    }
    (len, 1)
}

/// A 4:4:4 image of shape [`shape_of`]`(len)` from three code slices (`Plane::from_slice`, stride = width).
pub fn yuv444_row<T: Pixel>(y: &[u16], u: &[u16], v: &[u16], cfg: YuvConfig) -> Yuv<T> {
    let conv = |s: &[u16]| -> Vec<T> { s.iter().map(|&c| T::cast_from(c)).collect() };
    let n = shape_of(y.len()).0;
    let frame = Frame {
        planes: [
            Plane::from_slice(&conv(y), n),
            Plane::from_slice(&conv(u), n),
            Plane::from_slice(&conv(v), n),
        ],
    };
    Yuv::new(frame, cfg).expect("well-formed 4:4:4 row image must be accepted")
}

/// General frame builder through `Plane::new` (padding, decimation) with a fill function.
pub fn plane_new<T: Pixel>(
    w: usize,
    h: usize,
    xdec: usize,
    ydec: usize,
    xpad: usize,
    ypad: usize,
    fill: impl Fn(usize, usize) -> u16,
    poison: Option<u16>,
) -> Plane<T> {
    let mut p: Plane<T> = Plane::new(w, h, xdec, ydec, xpad, ypad);
    if let Some(pz) = poison {
        for v in p.data.iter_mut() {
            *v = T::cast_from(pz);
        }
    }
    let stride = p.cfg.stride;
    let xo = p.cfg.xorigin;
    let yo = p.cfg.yorigin;
    for y in 0..h {
        for x in 0..w {
            p.data[(yo + y) * stride + xo + x] = T::cast_from(fill(x, y));
        }
    }
    p
}

pub fn plane_samples<T: Pixel>(p: &Plane<T>) -> Vec<u16> {
    let mut out = Vec::with_capacity(p.cfg.width * p.cfg.height);
    for y in 0..p.cfg.height {
        for x in 0..p.cfg.width {
            out.push(u16::cast_from(p.p(x, y)));
        }
    }
    out
}

use yuvxyb::CastFromPrimitive;

/// (depth, u16 storage?) pairs: u8 storage for n=8, u16 storage for n=8..16.
pub const DEPTH_STORAGE: [(u8, bool); 10] =
    [(8, false), (8, true), (9, true), (10, true), (11, true), (12, true), (13, true), (14, true), (15, true), (16, true)];

/// Boundary alphabet B_n of codes at depth n.
pub fn boundary_codes(n: u32) -> Vec<u16> {
    let k = 1u32 << (n - 8);
    let max = (1u32 << n) - 1;
    let mut v: Vec<u32> = vec![
        0,
        1,
        16 * k - 1,
        16 * k,
        16 * k + 1,
        128 * k - 1,
        128 * k,
        128 * k + 1,
        235 * k - 1,
        235 * k,
        235 * k + 1,
        240 * k,
        240 * k + 1,
        max - 1,
        max,
    ];
    v.sort_unstable();
    v.dedup();
    v.into_iter().map(|c| c as u16).collect()
}

/// `points` evenly spaced codes (including 0 and max) united with B_n, sorted.
pub fn lattice_codes(n: u32, points: u32) -> Vec<u16> {
    let max = (1u32 << n) - 1;
    let mut v: Vec<u32> = (0..points).map(|i| ((i as u64 * max as u64) / (points as u64 - 1)) as u32).collect();
    v.extend(boundary_codes(n).into_iter().map(u32::from));
    // the black / mid / white / maximum codes of every *lower* depth too: a constant that is
    // right at one depth (128, 235, 1023, ...) is an ordinary-looking code at the others
    for m in 8..n {
        let k = 1u32 << (m - 8);
        v.extend([16 * k, 128 * k, 235 * k, 240 * k, (1u32 << m) - 1, 1u32 << m]);
    }
    v.sort_unstable();
    v.dedup();
    v.into_iter().map(|c| c as u16).collect()
}

/// Finite indexable sets of (Y,U,V) code triples.
pub enum Triples {
    /// every triple in [0,2^n)^3
    Full(u32),
    /// axis-exhaustive cross: every code on one plane x B_n x B_n on the two others
    Cross(u32, Vec<u16>),
    /// full product of one per-axis alphabet
    Product(Vec<u16>),
}

impl Triples {
    pub fn len(&self) -> u64 {
        match self {
            Triples::Full(n) => 1u64 << (3 * n),
            Triples::Cross(n, b) => 3 * (1u64 << n) * (b.len() * b.len()) as u64,
            Triples::Product(a) => (a.len() as u64).pow(3),
        }
    }
    #[inline]
    pub fn get(&self, i: u64) -> [u16; 3] {
        match self {
            Triples::Full(n) => {
                let m = (1u64 << n) - 1;
                // V fastest, then U, then Y: simplest-first = low codes first
                [((i >> (2 * n)) & m) as u16, ((i >> n) & m) as u16, (i & m) as u16]
            }
            Triples::Cross(n, b) => {
                let bl = b.len() as u64;
                let per_plane = (1u64 << n) * bl * bl;
                let p = i / per_plane;
                let r = i % per_plane;
                let c = (r / (bl * bl)) as u16;
                let a = b[((r / bl) % bl) as usize];
                let bb = b[(r % bl) as usize];
                match p {
                    0 => [c, a, bb],
                    1 => [a, c, bb],
                    _ => [a, bb, c],
                }
            }
            Triples::Product(a) => {
                let l = a.len() as u64;
                [a[(i / (l * l)) as usize], a[((i / l) % l) as usize], a[(i % l) as usize]]
            }
        }
    }
    pub fn describe(&self) -> String {
        match self {
            Triples::Full(n) => format!("all 2^{} triples", 3 * n),
            Triples::Cross(n, b) => format!("axis cross 3 x 2^{} x {}^2", n, b.len()),
            Triples::Product(a) => format!("product {}^3", a.len()),
        }
    }
}

pub fn range_name(full: bool) -> &'static str {
    if full {
        "full"
    } else {
        "limited"
    }
}
