#![allow(dead_code)]
//! `mc` — bounded exhaustive model checking of yuvxyb on the real public API.
//!
//!   mc run <ID> <quick|thorough> --out <report.json>
//!   mc replay <replay.json>          (prints "REPLAY violated=<bool> :: <key> :: <detail>")

mod explore;
mod geom;
mod img;
mod props;
mod refmodel;

use explore::{Report, Tier};
use serde_json::Value;

/// The allocator is part of the environment, and the only promise it makes is the alignment the
/// layout asks for. The system allocator happens to return 16-byte aligned blocks for everything, so
/// code that silently relies on that (splitting a `Vec<[f32; 3]>` with `align_to` and dropping the
/// "impossible" unaligned head, SIMD loads from a Vec) is never exercised. This allocator returns, for
/// every layout with an alignment below 16, an address that has exactly the requested alignment and
/// not more (16k + align), which is what an arena, a bump allocator or a 32-bit target may do.
struct MinimalAlign;

unsafe impl std::alloc::GlobalAlloc for MinimalAlign {
    unsafe fn alloc(&self, l: std::alloc::Layout) -> *mut u8 {
        if l.align() >= 16 {
            return std::alloc::System.alloc(l);
        }
        let Ok(big) = std::alloc::Layout::from_size_align(l.size() + 16, 16) else { return std::ptr::null_mut() };
        let p = std::alloc::System.alloc(big);
        if p.is_null() {
            p
        } else {
            p.add(l.align())
        }
    }
    unsafe fn dealloc(&self, p: *mut u8, l: std::alloc::Layout) {
        if l.align() >= 16 {
            std::alloc::System.dealloc(p, l)
        } else {
            std::alloc::System.dealloc(p.sub(l.align()), std::alloc::Layout::from_size_align_unchecked(l.size() + 16, 16))
        }
    }
}

// Not under Miri: recovering the block start from the user pointer in `dealloc` steps outside the
// provenance Stacked Borrows gives that pointer, and the interpreter's own allocator already
// returns minimally aligned addresses.
#[cfg(not(miri))]
#[global_allocator]
static ALLOC: MinimalAlign = MinimalAlign;

fn run_prop(id: &str, tier: Tier) -> Option<Report> {
    Some(match id {
        "C01" => props::c01::run(tier),
        "C08" => props::c08::run(tier),
        "C02" => props::c02::run(tier),
        "C03" => props::c03::run(tier),
        "C10" => props::c03::run_c10(tier),
        "C04" => props::c04::run(tier),
        "C05" => props::c04::run_c05(tier),
        "C06" => props::c06::run(tier),
        "C18" => props::c18::run(tier),
        "C19" => props::c19::run(tier),
        "C17" => props::c17::run(tier),
        "C16" => props::c16::run(tier),
        "C14" => props::c14::run(tier),
        "C15" => props::c15::run(tier),
        "C12" => props::c12::run(tier),
        "C07" => props::c07::run(tier),
        "C13" => props::c13::run(tier),
        "C11" => props::c11::run(tier),
        "C09" => props::c09::run(tier),
        "C20" => props::c20::run(tier),
        _ => return None,
    })
}

fn staged_of(id: &str, tier: Tier) -> Option<explore::Staged> {
    Some(match id {
        "C07" => props::c07::staged(tier),
        "C13" => props::c13::staged(tier),
        _ => return None,
    })
}

fn replay_case(case: &Value) -> Option<(bool, String)> {
    // every case kind starts with the id of the property module that produced it
    let kind = case["kind"].as_str()?;
    Some(match kind.get(..3)? {
        "c01" => props::c01::replay(case),
        "c08" => props::c08::replay(case),
        "c02" => props::c02::replay(case),
        "c03" => props::c03::replay(case),
        "c10" => props::c03::replay_c10(case),
        "c04" => props::c04::replay(case),
        "c05" => props::c04::replay_c05(case),
        "c06" => props::c06::replay(case),
        "c18" => props::c18::replay(case),
        "c19" => props::c19::replay(case),
        "c17" => props::c17::replay(case),
        "c16" => props::c16::replay(case),
        "c14" => props::c14::replay(case),
        "c15" => props::c15::replay(case),
        "c12" => props::c12::replay(case),
        "c07" => props::c07::replay(case),
        "c13" => props::c13::replay(case),
        "c11" => props::c11::replay(case),
        "c09" => props::c09::replay(case),
        "c20" => props::c20::replay(case),
        _ => return None,
    })
}

fn build_info() -> Value {
    serde_json::json!({
        "fastmath_requested": cfg!(feature = "fastmath"),
        "fma": cfg!(target_feature = "fma"),
        "debug_assertions": cfg!(debug_assertions),
        "overflow_checks": overflow_checks_on(),
    })
}

fn overflow_checks_on() -> bool {
    let prev = std::panic::take_hook();
    std::panic::set_hook(Box::new(|_| {}));
    let r = std::panic::catch_unwind(|| std::hint::black_box(255u8) + std::hint::black_box(1u8)).is_err();
    std::panic::set_hook(prev);
    r
}

fn usage() -> ! {
    eprintln!("usage: mc run <ID> <quick|thorough> --out <file> | mc replay <file> | mc info");
    std::process::exit(2)
}

fn main() {
    let args: Vec<String> = std::env::args().collect();
    if args.len() < 2 {
        usage();
    }
    let info = build_info();
    explore::install_panic_hook();
    match args[1].as_str() {
        "info" => {
            println!("{info}");
            return;
        }
        "run" => {
            if args.len() < 4 {
                usage();
            }
            let tier = match args[3].as_str() {
                "quick" => Tier::Quick,
                "thorough" => Tier::Thorough,
                _ => usage(),
            };
            let out = args.iter().position(|a| a == "--out").map(|i| args[i + 1].clone());
            let t0 = std::time::Instant::now();
            let id = args[2].clone();
            let rep = match std::panic::catch_unwind(|| run_prop(&id, tier)) {
                Ok(Some(r)) => r,
                Ok(None) => {
                    eprintln!("unknown property {id}");
                    std::process::exit(2)
                }
                Err(_) => {
                    // A panic escaped a call the harness did not guard. If it originates in the
                    // library under test it is a finding (the library panicked on an input of the
                    // property's own domain); if it originates in the harness it is a machinery bug.
                    let msg = explore::unguarded_panic().unwrap_or_default();
                    if !msg.contains("/repo/") {
                        eprintln!("harness panic: {msg}");
                        std::process::exit(101)
                    }
                    let mut r = Report::new(&id);
                    r.acc.states = 1;
                    r.acc.transitions = 1;
                    r.acc.samples.push(serde_json::json!({"note": "exploration aborted by a library panic"}));
                    r.acc.violation(0, format!("library-panic {}", explore::panic_site(&msg)), format!("the library panicked on an input of this property's domain: {msg}"), serde_json::json!({"kind": "rerun", "property": id, "tier": tier.name()}));
                    r.bound = "exploration aborted at the first library panic".into();
                    r
                }
            };
            let mut j = rep.to_json();
            j["wall_s"] = serde_json::json!(t0.elapsed().as_secs_f64());
            j["tier"] = serde_json::json!(tier.name());
            j["build"] = info;
            let s = serde_json::to_string_pretty(&j).unwrap();
            match out {
                Some(p) => std::fs::write(p, s).expect("write report"),
                None => println!("{s}"),
            }
        }
        "miribox" => {
            // run under `cargo +nightly miri run`: any UB aborts the interpreter with an error
            let acc = props::c07::miri_box();
            let hooks: Vec<_> = acc.viols.values().map(|v| format!("{} :: {}", v.key, v.detail)).collect();
            println!("MIRIBOX states={} transitions={} hook_violations={:?} buckets={:?}", acc.states, acc.transitions, hooks, acc.buckets);
            std::process::exit(if hooks.is_empty() { 0 } else { 1 });
        }
        "histrun" => {
            props::c11::histrun_main(&args[2]);
        }
        "histwalk" => {
            let tier = if args[2] == "quick" { Tier::Quick } else { Tier::Thorough };
            props::c11::histwalk_main(tier, &args[3], args.get(4).map(|s| s.as_str()).unwrap_or("small"));
        }
        "xdump" => {
            props::c20::xdump(&args[2]);
        }
        "xcompare" => {
            // mc xcompare <a> <b> <mode>
            println!("{}", props::c20::xcompare(&args[2], &args[3], &args[4]));
        }
        "child" => {
            // mc child <ID> <tier> <stage> <lo> <hi> <out>
            if args.len() < 8 {
                usage();
            }
            let tier = if args[3] == "quick" { Tier::Quick } else { Tier::Thorough };
            let st = staged_of(&args[2], tier).unwrap_or_else(|| usage());
            explore::child_main(&st, tier, args[4].parse().unwrap(), args[5].parse().unwrap(), args[6].parse().unwrap(), &args[7]);
        }
        "replay" => {
            if args.len() < 3 {
                usage();
            }
            let txt = std::fs::read_to_string(&args[2]).expect("read replay file");
            let v: Value = serde_json::from_str(&txt).expect("parse replay file");
            let case = if v.get("case").is_some() { &v["case"] } else { &v };
            if case["kind"] == "rerun" {
                let tier = if case["tier"] == "quick" { Tier::Quick } else { Tier::Thorough };
                let id = case["property"].as_str().unwrap().to_string();
                let r = std::panic::catch_unwind(|| run_prop(&id, tier));
                let msg = explore::unguarded_panic().unwrap_or_default();
                let violated = r.is_err() && msg.contains("/repo/");
                println!("REPLAY violated={violated} :: library-panic :: {msg}");
                std::process::exit(if violated { 1 } else { 0 });
            }
            if case["kind"] == "rerun-key" {
                // Re-run the whole exploration of one property on ONE worker thread (a single deterministic
                // call sequence, child stages included) and report whether the same finding comes back.
                std::env::set_var("VERIF_THREADS", "1");
                let tier = if case["tier"] == "quick" { Tier::Quick } else { Tier::Thorough };
                let id = case["property"].as_str().unwrap().to_string();
                let key = case["key"].as_str().unwrap();
                let rep = run_prop(&id, tier).unwrap_or_else(|| usage());
                let v = rep.acc.viols.values().find(|v| v.key == key);
                println!("REPLAY violated={} :: {} :: {}", v.is_some(), key, v.map(|v| v.detail.clone()).unwrap_or_else(|| "the single-threaded re-run of the whole exploration does not show this finding".into()));
                std::process::exit(if v.is_some() { 1 } else { 0 });
            }
            if case["kind"] == "range" {
                // re-run a whole index range of a staged check in this process (expected to die)
                let tier = if case["tier"] == "quick" { Tier::Quick } else { Tier::Thorough };
                let st = staged_of(case["property"].as_str().unwrap(), tier).unwrap_or_else(|| usage());
                let acc = (st.run)(tier, case["stage"].as_u64().unwrap() as usize, case["lo"].as_u64().unwrap(), case["hi"].as_u64().unwrap());
                let v = acc.viols.values().next();
                println!("REPLAY violated={} :: range survived :: {:?}", v.is_some(), v.map(|v| &v.detail));
                std::process::exit(if v.is_some() { 1 } else { 0 });
            }
            match replay_case(case) {
                Some((violated, obs)) => {
                    println!("REPLAY violated={violated} :: {obs}");
                    std::process::exit(if violated { 1 } else { 0 });
                }
                None => {
                    eprintln!("unknown case kind");
                    std::process::exit(2)
                }
            }
        }
        _ => usage(),
    }
}
